// Package message mirrors gothemis/message (encrypt mode) as an ideal key-wrap.
package message

import (
	"github.com/cossacklabs/themis/gothemis/errors"
	"github.com/cossacklabs/themis/gothemis/hook"
	"github.com/cossacklabs/themis/gothemis/keys"
)

var (
	ErrEncryptMessage    = errors.New("failed to encrypt message")
	ErrDecryptMessage    = errors.New("failed to decrypt message")
	ErrSignMessage       = errors.New("failed to sign message")
	ErrVerifyMessage     = errors.New("failed to verify message")
	ErrProcessMessage    = errors.New("failed to process message")
	ErrGetOutputSize     = errors.New("failed to get output size")
	ErrMissingMessage    = errors.NewWithCode(errors.InvalidParameter, "empty message for Secure Cell")
	ErrMissingPublicKey  = errors.NewWithCode(errors.InvalidParameter, "empty peer public key for Secure Message")
	ErrMissingPrivateKey = errors.NewWithCode(errors.InvalidParameter, "empty private key for Secure Message")
	ErrOutOfMemory       = errors.NewWithCode(errors.NoMemory, "Secure Message cannot allocate enough memory")
	ErrOverflow          = ErrOutOfMemory
)

// WrapOverhead is what Themis Secure Message adds in encrypt mode (a 32-byte key wraps to 84 bytes).
const WrapOverhead = 52

type SecureMessage struct {
	private    *keys.PrivateKey
	peerPublic *keys.PublicKey
}

func New(private *keys.PrivateKey, peerPublic *keys.PublicKey) *SecureMessage {
	return &SecureMessage{private, peerPublic}
}

type row struct{ priv, pub, msg, out []byte }

var rows []row

// Reset forgets all wrapped messages (used between native replays).
func Reset() { rows = nil }

func dup(b []byte) []byte { return append([]byte{}, b...) }

func (sm *SecureMessage) Wrap(message []byte) ([]byte, error) {
	if sm.private == nil || len(sm.private.Value) == 0 {
		return nil, ErrMissingPrivateKey
	}
	if sm.peerPublic == nil || len(sm.peerPublic.Value) == 0 {
		return nil, ErrMissingPublicKey
	}
	if len(message) == 0 {
		return nil, ErrMissingMessage
	}
	out := hook.Fresh("wrap", len(message)+WrapOverhead)
	for _, r := range rows {
		if len(r.out) == len(out) {
			hook.Assume(hook.Not(hook.Eq(r.out, out)))
		}
	}
	rows = append(rows, row{dup(sm.private.Value), dup(sm.peerPublic.Value), dup(message), dup(out)})
	return out, nil
}

func (sm *SecureMessage) Unwrap(message []byte) ([]byte, error) {
	if sm.private == nil || len(sm.private.Value) == 0 {
		return nil, ErrMissingPrivateKey
	}
	if sm.peerPublic == nil || len(sm.peerPublic.Value) == 0 {
		return nil, ErrMissingPublicKey
	}
	if len(message) == 0 {
		return nil, ErrMissingMessage
	}
	for _, r := range rows {
		if len(r.out) != len(message) {
			continue
		}
		// the recipient's private key must be the partner of the public key used to wrap,
		// and the sender's public key the partner of the private key used to wrap
		if hook.And(hook.Eq(r.out, message), keys.IsPair(sm.private.Value, r.pub), keys.IsPair(r.priv, sm.peerPublic.Value)) {
			return dup(r.msg), nil
		}
	}
	return nil, ErrDecryptMessage
}

func (sm *SecureMessage) Sign(message []byte) ([]byte, error) {
	if sm.private == nil || len(sm.private.Value) == 0 {
		return nil, ErrMissingPrivateKey
	}
	if len(message) == 0 {
		return nil, ErrMissingMessage
	}
	return nil, errors.NewWithCode(errors.NotSupported, "stand-in does not model signatures")
}

func (sm *SecureMessage) Verify(message []byte) ([]byte, error) {
	if sm.peerPublic == nil || len(sm.peerPublic.Value) == 0 {
		return nil, ErrMissingPublicKey
	}
	if len(message) == 0 {
		return nil, ErrMissingMessage
	}
	return nil, errors.NewWithCode(errors.NotSupported, "stand-in does not model signatures")
}

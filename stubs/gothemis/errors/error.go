// Package errors mirrors gothemis/errors.
package errors

// ThemisErrorCode describes an error reported by Themis Core.
type ThemisErrorCode int

// Error codes of Themis Core.
const (
	Success          ThemisErrorCode = 0
	Fail                             = 11
	InvalidParameter                 = 12
	NoMemory                         = 13
	BufferTooSmall                   = 14
	DataCorrupt                      = 15
	InvalidSignature                 = 16
	NotSupported                     = 17
)

// ThemisError is a common type of GoThemis errors.
type ThemisError struct {
	description string
	errorCode   ThemisErrorCode
}

func (e *ThemisError) Error() string         { return e.description }
func (e *ThemisError) Code() ThemisErrorCode { return e.errorCode }

// New makes an error with provided description.
func New(description string) *ThemisError { return NewWithCode(Fail, description) }

// NewWithCode makes an error with provided numeric code and description.
func NewWithCode(code ThemisErrorCode, description string) *ThemisError {
	return &ThemisError{description, code}
}

// ThemisCallbackError is user-generated error returned from Secure Session callback.
type ThemisCallbackError struct{ msg string }

func (e *ThemisCallbackError) Error() string { return e.msg }

// NewCallbackError makes an error with provided description.
func NewCallbackError(msg string) *ThemisCallbackError { return &ThemisCallbackError{msg} }

module github.com/cossacklabs/themis/gothemis

go 1.13

// Package hook is the seam between the pure-Go stand-in for Themis and the verification engine.
// Under the symbolic engine every function here is intercepted; natively Fresh follows the
// replay model ($VERIF_MODEL, key "fresh") when present and a deterministic stream otherwise.
package hook

import (
	"bytes"
	"crypto/sha256"
	"encoding/hex"
	"encoding/json"
	"fmt"
	"os"
	"sync"
)

var (
	once   sync.Once
	script map[string][]string
	pos    = map[string]int{}
	mu     sync.Mutex
	ctr    uint64
)

func load() {
	once.Do(func() {
		p := os.Getenv("VERIF_MODEL")
		if p == "" {
			return
		}
		b, err := os.ReadFile(p)
		if err != nil {
			return
		}
		var m struct {
			Fresh map[string][]string `json:"fresh"`
		}
		if json.Unmarshal(b, &m) == nil {
			script = m.Fresh
		}
	})
}

// Symbolic reports whether the code runs under the symbolic engine.
func Symbolic() bool { return false }

// Fresh returns n fresh bytes of the given category.
func Fresh(cat string, n int) []byte {
	load()
	mu.Lock()
	defer mu.Unlock()
	k := pos[cat]
	pos[cat]++
	out := make([]byte, n)
	if l := script[cat]; k < len(l) {
		b, _ := hex.DecodeString(l[k])
		copy(out, b)
		return out
	}
	seed := os.Getenv("VERIF_SEED")
	for i := 0; i < n; i += 32 {
		ctr++
		h := sha256.Sum256([]byte(fmt.Sprintf("%s/%s/%d/%d", seed, cat, k, ctr)))
		copy(out[i:], h[:])
	}
	return out
}

// Assume constrains the ideal model (no-op natively).
func Assume(c bool) {}

// Eq is byte equality without a path split.
func Eq(a, b []byte) bool { return bytes.Equal(a, b) }

// And is conjunction without a path split.
func And(cs ...bool) bool {
	for _, c := range cs {
		if !c {
			return false
		}
	}
	return true
}

// Not is negation without a path split.
func Not(c bool) bool { return !c }

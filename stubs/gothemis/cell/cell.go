// Package cell mirrors gothemis/cell (Seal mode) as an ideal AEAD:
// a ciphertext is len(plaintext)+44 fresh bytes and decrypts only under the same key and context.
package cell

import (
	"github.com/cossacklabs/themis/gothemis/errors"
	"github.com/cossacklabs/themis/gothemis/hook"
	"github.com/cossacklabs/themis/gothemis/keys"
)

var (
	ErrGetOutputSize     = errors.New("failed to get output size")
	ErrEncryptData       = errors.New("failed to protect data")
	ErrDecryptData       = errors.New("failed to unprotect data")
	ErrInvalidMode       = errors.NewWithCode(errors.InvalidParameter, "invalid Secure Cell mode specified")
	ErrMissingKey        = errors.NewWithCode(errors.InvalidParameter, "empty symmetric key for Secure Cell")
	ErrMissingPassphrase = errors.NewWithCode(errors.InvalidParameter, "empty passphrase for Secure Cell")
	ErrMissingMessage    = errors.NewWithCode(errors.InvalidParameter, "empty message for Secure Cell")
	ErrMissingToken      = errors.NewWithCode(errors.InvalidParameter, "authentication token is required in Token Protect mode")
	ErrMissingContext    = errors.NewWithCode(errors.InvalidParameter, "associated context is required in Context Imprint mode")
	ErrOutOfMemory       = errors.NewWithCode(errors.NoMemory, "Secure Cell cannot allocate enough memory")
	ErrOverflow          = ErrOutOfMemory
)

const (
	ModeSeal = iota
	ModeTokenProtect
	ModeContextImprint
)

const (
	CELL_MODE_SEAL            = ModeSeal
	CELL_MODE_TOKEN_PROTECT   = ModeTokenProtect
	CELL_MODE_CONTEXT_IMPRINT = ModeContextImprint
)

// SealOverhead is the size Themis adds in Seal mode (header + IV + tag).
const SealOverhead = 44

type row struct{ key, ctx, pt, ct []byte }

var rows []row

// Reset forgets all ciphertexts (used between native replays).
func Reset() { rows = nil }

func dup(b []byte) []byte { return append([]byte{}, b...) }

func seal(key, message, context []byte) []byte {
	ct := hook.Fresh("ct", len(message)+SealOverhead)
	for _, r := range rows {
		if len(r.ct) == len(ct) {
			hook.Assume(hook.Not(hook.Eq(r.ct, ct)))
		}
	}
	rows = append(rows, row{dup(key), dup(context), dup(message), dup(ct)})
	return ct
}

func open(key, encrypted, context []byte) ([]byte, bool) {
	for _, r := range rows {
		if len(r.ct) != len(encrypted) || len(r.key) != len(key) || len(r.ctx) != len(context) {
			continue
		}
		if hook.And(hook.Eq(r.ct, encrypted), hook.Eq(r.key, key), hook.Eq(r.ctx, context)) {
			return dup(r.pt), true
		}
	}
	return nil, false
}

// SecureCell is the deprecated multi-mode API (only Seal mode is modelled).
type SecureCell struct {
	key  []byte
	mode int
}

func New(key []byte, mode int) *SecureCell { return &SecureCell{key, mode} }

func (sc *SecureCell) Protect(data []byte, context []byte) ([]byte, []byte, error) {
	if sc.mode < ModeSeal || sc.mode > ModeContextImprint {
		return nil, nil, ErrInvalidMode
	}
	if len(sc.key) == 0 {
		return nil, nil, ErrMissingKey
	}
	if len(data) == 0 {
		return nil, nil, ErrMissingMessage
	}
	if sc.mode != ModeSeal {
		return nil, nil, errors.NewWithCode(errors.NotSupported, "stand-in models Seal mode only")
	}
	return seal(sc.key, data, context), nil, nil
}

func (sc *SecureCell) Unprotect(protectedData []byte, additionalData []byte, context []byte) ([]byte, error) {
	if sc.mode < ModeSeal || sc.mode > ModeContextImprint {
		return nil, ErrInvalidMode
	}
	if len(sc.key) == 0 {
		return nil, ErrMissingKey
	}
	if len(protectedData) == 0 {
		return nil, ErrMissingMessage
	}
	if sc.mode != ModeSeal {
		return nil, errors.NewWithCode(errors.NotSupported, "stand-in models Seal mode only")
	}
	if pt, ok := open(sc.key, protectedData, context); ok {
		return pt, nil
	}
	return nil, ErrDecryptData
}

type SecureCellSeal struct{ key *keys.SymmetricKey }

func SealWithKey(key *keys.SymmetricKey) (*SecureCellSeal, error) {
	if key == nil || len(key.Value) == 0 {
		return nil, ErrMissingKey
	}
	return &SecureCellSeal{key}, nil
}

func (sc *SecureCellSeal) Encrypt(message, context []byte) ([]byte, error) {
	if len(message) == 0 {
		return nil, ErrMissingMessage
	}
	return seal(sc.key.Value, message, context), nil
}

func (sc *SecureCellSeal) Decrypt(encrypted, context []byte) ([]byte, error) {
	if len(encrypted) == 0 {
		return nil, ErrMissingMessage
	}
	if pt, ok := open(sc.key.Value, encrypted, context); ok {
		return pt, nil
	}
	return nil, errors.NewWithCode(errors.Fail, "Secure Cell failed to decrypt")
}

// Package keys mirrors gothemis/keys with an ideal key generator.
package keys

import (
	"github.com/cossacklabs/themis/gothemis/errors"
	"github.com/cossacklabs/themis/gothemis/hook"
)

const (
	TypeEC = iota
	TypeRSA
)

const (
	KEYTYPE_EC  = TypeEC
	KEYTYPE_RSA = TypeRSA
)

var (
	ErrGetKeySize           = errors.New("failed to get needed key sizes")
	ErrGenerateKeypair      = errors.New("failed to generate keypair")
	ErrInvalidType          = errors.NewWithCode(errors.InvalidParameter, "invalid key type specified")
	ErrOutOfMemory          = errors.NewWithCode(errors.NoMemory, "key generator cannot allocate enough memory")
	ErrOverflow             = ErrOutOfMemory
	ErrGetSymmetricKeySize  = errors.New("failed to get symmetric key size")
	ErrGenerateSymmetricKey = errors.New("failed to generate symmetric key")
)

type PrivateKey struct{ Value []byte }
type PublicKey struct{ Value []byte }
type Keypair struct {
	Private *PrivateKey
	Public  *PublicKey
}
type SymmetricKey struct{ Value []byte }

// ECKeyLength is the size of Themis' serialized P-256 keys.
const ECKeyLength = 45

type pair struct{ priv, pub []byte }

var pairs []pair

// Reset forgets all generated pairs (used between native replays).
func Reset() { pairs = nil }

func dup(b []byte) []byte { return append([]byte{}, b...) }

// New generates a new key pair: fresh bytes, pairwise distinct from all earlier keys.
func New(keytype int) (*Keypair, error) {
	if keytype != TypeEC && keytype != TypeRSA {
		return nil, ErrInvalidType
	}
	priv := hook.Fresh("key", ECKeyLength)
	pub := hook.Fresh("key", ECKeyLength)
	hook.Assume(hook.Not(hook.Eq(priv, pub)))
	for _, p := range pairs {
		hook.Assume(hook.Not(hook.Eq(priv, p.priv)))
		hook.Assume(hook.Not(hook.Eq(priv, p.pub)))
		hook.Assume(hook.Not(hook.Eq(pub, p.priv)))
		hook.Assume(hook.Not(hook.Eq(pub, p.pub)))
	}
	pairs = append(pairs, pair{dup(priv), dup(pub)})
	return &Keypair{Private: &PrivateKey{Value: priv}, Public: &PublicKey{Value: pub}}, nil
}

// IsPair reports (without a path split) whether priv and pub belong to one generated pair.
func IsPair(priv, pub []byte) bool {
	r := false
	for _, p := range pairs {
		if len(p.priv) != len(priv) || len(p.pub) != len(pub) {
			continue
		}
		r = hook.Not(hook.And(hook.Not(r), hook.Not(hook.And(hook.Eq(p.priv, priv), hook.Eq(p.pub, pub)))))
	}
	return r
}

// NewSymmetricKey generates a new random symmetric key.
func NewSymmetricKey() (*SymmetricKey, error) {
	return &SymmetricKey{Value: hook.Fresh("key", 32)}, nil
}

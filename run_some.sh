#!/bin/bash
# run_some.sh <tier> <ids...>: one summary line per property
T=$1; shift
cd /verif
for p in "$@"; do
  out=$(./check $p --tier $T 2>&1); rc=$?
  echo "$p rc=$rc $(echo "$out" | grep '^property=' | tail -1)"
  echo "$out" | grep -E "^(VIOLATION|BROKEN|SPURIOUS|INCONCLUSIVE|TRANSLATOR)" | cut -c1-220 | head -5
done

package smt

import (
	"bufio"
	"fmt"
	"io"
	"os/exec"
	"strconv"
	"strings"
	"time"
)

type Result int

const (
	Unsat Result = iota
	Sat
	Unknown
)

func (r Result) String() string { return [...]string{"unsat", "sat", "unknown"}[r] }

// Solver is one persistent solver process fed through stdin.
type Solver struct {
	Name    string
	cmd     *exec.Cmd
	in      io.WriteCloser
	out     *bufio.Reader
	emitted map[int]bool
	ctx     *Ctx
	Queries int
	NSat    int
	NUnsat  int
	NUnk    int
	Time    time.Duration
	Timeout time.Duration
	Log     io.Writer // optional transcript
	Errors  []string
}

// NewSolver starts kind ∈ {"z3","z3-new","cvc5"}.
func NewSolver(ctx *Ctx, kind string, timeout time.Duration) (*Solver, error) {
	var cmd *exec.Cmd
	ms := int(timeout / time.Millisecond)
	switch kind {
	case "z3", "z3-new":
		cmd = exec.Command(kind, "-in", fmt.Sprintf("-t:%d", ms))
	case "cvc5":
		cmd = exec.Command("cvc5", "--incremental", "--lang=smt2", fmt.Sprintf("--tlimit-per=%d", ms), "--produce-models")
	default:
		return nil, fmt.Errorf("unknown solver %q", kind)
	}
	in, err := cmd.StdinPipe()
	if err != nil {
		return nil, err
	}
	out, err := cmd.StdoutPipe()
	if err != nil {
		return nil, err
	}
	cmd.Stderr = cmd.Stdout
	if err := cmd.Start(); err != nil {
		return nil, err
	}
	s := &Solver{Name: kind, cmd: cmd, in: in, out: bufio.NewReaderSize(out, 1<<16), emitted: map[int]bool{}, ctx: ctx, Timeout: timeout}
	if kind == "cvc5" {
		s.send("(set-logic ALL)\n")
	}
	s.send("(set-option :produce-models true)\n")
	return s, nil
}

func (s *Solver) send(str string) {
	if s.Log != nil {
		io.WriteString(s.Log, str)
	}
	if _, err := io.WriteString(s.in, str); err != nil {
		panic(SolverDied{s.Name + ": write: " + err.Error()})
	}
}

type SolverDied struct{ Msg string }

func (s *Solver) Close() {
	if s.cmd != nil {
		s.in.Close()
		s.cmd.Process.Kill()
		s.cmd.Wait()
		s.cmd = nil
	}
}

func (s *Solver) readLine() string {
	line, err := s.out.ReadString('\n')
	if err != nil {
		panic(SolverDied{s.Name + ": read: " + err.Error()})
	}
	return strings.TrimSpace(line)
}

// Check decides satisfiability of the conjunction of assertions.
// If wantModel and the result is Sat, the values of vars are returned.
func (s *Solver) Check(assertions []*Term, vars []*Term) (Result, map[string]uint64) {
	t0 := time.Now()
	defer func() { s.Time += time.Since(t0); s.Queries++ }()
	var sb strings.Builder
	for _, a := range assertions {
		s.ctx.Emit(a, s.emitted, &sb)
	}
	for _, v := range vars {
		s.ctx.Emit(v, s.emitted, &sb)
	}
	sb.WriteString("(push 1)\n")
	for _, a := range assertions {
		sb.WriteString("(assert " + a.Ref() + ")\n")
	}
	sb.WriteString("(check-sat)\n")
	tq := time.Now()
	s.send(sb.String())
	defer func() {
		if s.Log != nil {
			fmt.Fprintf(s.Log, "; ^ query %d took %v\n", s.Queries, time.Since(tq))
		}
	}()
	var res Result
	nerr := len(s.Errors)
	for {
		line := s.readLine()
		if line == "" {
			continue
		}
		switch line {
		case "sat":
			res = Sat
		case "unsat":
			res = Unsat
		case "unknown", "timeout":
			res = Unknown
		default:
			// (error ...) or warnings: inconclusive, and remember
			s.Errors = append(s.Errors, line)
			if strings.HasPrefix(line, "(error") {
				// drain: an error line may precede the actual answer; treat as unknown after reading the answer
				continue
			}
			continue
		}
		break
	}
	if len(s.Errors) > nerr {
		res = Unknown
	}
	var model map[string]uint64
	if res == Sat && len(vars) > 0 {
		var q strings.Builder
		q.WriteString("(get-value (")
		for _, v := range vars {
			q.WriteString(v.Ref() + " ")
		}
		q.WriteString("))\n")
		s.send(q.String())
		model = s.readModel()
	}
	s.send("(pop 1)\n")
	switch res {
	case Sat:
		s.NSat++
	case Unsat:
		s.NUnsat++
	default:
		s.NUnk++
	}
	return res, model
}

// readModel parses ((name value) ...) possibly spanning lines.
func (s *Solver) readModel() map[string]uint64 {
	depth := 0
	var sb strings.Builder
	started := false
	for {
		r, _, err := s.out.ReadRune()
		if err != nil {
			panic(SolverDied{s.Name + ": read model: " + err.Error()})
		}
		sb.WriteRune(r)
		if r == '(' {
			depth++
			started = true
		} else if r == ')' {
			depth--
			if started && depth == 0 {
				break
			}
		}
	}
	txt := sb.String()
	m := map[string]uint64{}
	// tokens: (name #x.. ) or (name #b..) or (name true) or (name (_ bvN W))
	txt = strings.NewReplacer("(", " ( ", ")", " ) ").Replace(txt)
	f := strings.Fields(txt)
	for i := 0; i+2 < len(f); i++ {
		if f[i] != "(" || f[i+1] == "(" {
			continue
		}
		name := f[i+1]
		val := f[i+2]
		switch {
		case strings.HasPrefix(val, "#x"):
			v, _ := strconv.ParseUint(val[2:], 16, 64)
			m[name] = v
		case strings.HasPrefix(val, "#b"):
			v, _ := strconv.ParseUint(val[2:], 2, 64)
			m[name] = v
		case val == "true":
			m[name] = 1
		case val == "false":
			m[name] = 0
		case val == "(" && i+4 < len(f) && f[i+3] == "_" && strings.HasPrefix(f[i+4], "bv"):
			v, _ := strconv.ParseUint(f[i+4][2:], 10, 64)
			m[name] = v
		}
	}
	return m
}

// Package smt: hash-consed bit-vector/bool term DAG with a light simplifier
// and an SMT-LIB2 printer. One Ctx per worker (not safe for concurrent use).
package smt

import (
	"fmt"
	"math/bits"
	"strings"
)

type Op uint8

const (
	OpConst Op = iota // val
	OpVar             // name
	OpAdd
	OpSub
	OpMul
	OpUDiv
	OpSDiv
	OpURem
	OpSRem
	OpAnd // bvand
	OpOr  // bvor
	OpXor
	OpShl
	OpLShr
	OpAShr
	OpNot // bvnot
	OpNeg
	OpZExt    // args[0], result width w
	OpSExt    // args[0], result width w
	OpExtract // args[0], low bit = val, width w
	OpIte     // args: c, a, b
	OpEq      // bool
	OpULt
	OpULe
	OpSLt
	OpSLe
	OpBAnd // bool and (n-ary)
	OpBOr  // bool or (n-ary)
	OpBNot // bool not
	OpConcat
)

var opNames = map[Op]string{OpAdd: "bvadd", OpSub: "bvsub", OpMul: "bvmul", OpUDiv: "bvudiv", OpSDiv: "bvsdiv",
	OpURem: "bvurem", OpSRem: "bvsrem", OpAnd: "bvand", OpOr: "bvor", OpXor: "bvxor", OpShl: "bvshl", OpLShr: "bvlshr",
	OpAShr: "bvashr", OpNot: "bvnot", OpNeg: "bvneg", OpIte: "ite", OpEq: "=", OpULt: "bvult", OpULe: "bvule",
	OpSLt: "bvslt", OpSLe: "bvsle", OpBAnd: "and", OpBOr: "or", OpBNot: "not", OpConcat: "concat"}

// Term is an immutable node. W==0 means Bool.
type Term struct {
	ID   int
	Op   Op
	W    int
	Args []*Term
	Val  uint64
	Name string
	C    *Ctx
}

func (t *Term) IsConst() bool { return t.Op == OpConst }
func (t *Term) IsTrue() bool  { return t.Op == OpConst && t.W == 0 && t.Val == 1 }
func (t *Term) IsFalse() bool { return t.Op == OpConst && t.W == 0 && t.Val == 0 }

type Ctx struct {
	table map[string]*Term
	next  int
	Vars  []*Term // declared variables in creation order
	True  *Term
	False *Term
	Owner interface{}
}

// Table is a recognised constant lookup: t == Vals[i] when X == Keys[i], Def otherwise.
type Table struct {
	X    *Term
	Keys []uint64
	Vals []uint64
	Def  uint64
}

// AsTable recognises ite(X==k0, v0, ite(X==k1, v1, ... d)) with constant keys, values and default: the shape that
// indexing a constant table with a symbolic index produces (also after a constant-leaf lifting changed the leaves).
func (c *Ctx) AsTable(t *Term) (Table, bool) {
	var tb Table
	for n := 0; t.Op == OpIte; n++ {
		cond := t.Args[0]
		if n > 256 || cond.Op != OpEq || !cond.Args[1].IsConst() || !t.Args[1].IsConst() {
			return tb, false
		}
		if tb.X == nil {
			tb.X = cond.Args[0]
		} else if tb.X != cond.Args[0] {
			return tb, false
		}
		tb.Keys = append(tb.Keys, cond.Args[1].Val)
		tb.Vals = append(tb.Vals, t.Args[1].Val)
		t = t.Args[2]
	}
	if tb.X == nil || !t.IsConst() {
		return tb, false
	}
	tb.Def = t.Val
	return tb, true
}

// Dense reports that the keys are 0..n-1 in some order and X cannot exceed n, so that the default is taken for
// X == n only (or never).
func (tb Table) Dense() bool {
	n := len(tb.Keys)
	seen := make([]bool, n)
	for _, k := range tb.Keys {
		if k >= uint64(n) || seen[k] {
			return false
		}
		seen[k] = true
	}
	return umax(tb.X) <= uint64(n)
}

// At returns the table value for a concrete index.
func (tb Table) At(x uint64) uint64 {
	for i, k := range tb.Keys {
		if k == x {
			return tb.Vals[i]
		}
	}
	return tb.Def
}

// injective: dense and no value repeated, so that two lookups agree exactly when their indexes do.
func (tb Table) injective() bool {
	if !tb.Dense() {
		return false
	}
	seen := map[uint64]bool{tb.Def: true}
	for _, v := range tb.Vals {
		if seen[v] {
			return false
		}
		seen[v] = true
	}
	return true
}

func sameTable(a, b Table) bool {
	if len(a.Keys) != len(b.Keys) || a.Def != b.Def || a.X.W != b.X.W {
		return false
	}
	for i := range a.Keys {
		if a.Keys[i] != b.Keys[i] || a.Vals[i] != b.Vals[i] {
			return false
		}
	}
	return true
}

func NewCtx() *Ctx {
	c := &Ctx{table: map[string]*Term{}}
	c.True = c.mk(OpConst, 0, 1, "", nil)
	c.False = c.mk(OpConst, 0, 0, "", nil)
	return c
}

func mask(w int) uint64 {
	if w >= 64 {
		return ^uint64(0)
	}
	return (uint64(1) << uint(w)) - 1
}

func (c *Ctx) mk(op Op, w int, val uint64, name string, args []*Term) *Term {
	var sb strings.Builder
	fmt.Fprintf(&sb, "%d:%d:%d:%s", op, w, val, name)
	for _, a := range args {
		fmt.Fprintf(&sb, ":%d", a.ID)
	}
	k := sb.String()
	if t, ok := c.table[k]; ok {
		return t
	}
	t := &Term{ID: c.next, Op: op, W: w, Args: args, Val: val, Name: name, C: c}
	c.next++
	c.table[k] = t
	if op == OpVar {
		c.Vars = append(c.Vars, t)
	}
	return t
}

func (c *Ctx) NumTerms() int { return c.next }

func (c *Ctx) Const(v uint64, w int) *Term {
	if w == 0 {
		if v != 0 {
			return c.True
		}
		return c.False
	}
	return c.mk(OpConst, w, v&mask(w), "", nil)
}

func (c *Ctx) Bool(b bool) *Term {
	if b {
		return c.True
	}
	return c.False
}

func (c *Ctx) Var(name string, w int) *Term { return c.mk(OpVar, w, 0, name, nil) }

func sext(v uint64, w int) int64 {
	if w >= 64 {
		return int64(v)
	}
	s := uint(64 - w)
	return int64(v<<s) >> s
}

// liftable: an ite tree whose leaves are all constants (so an op with a constant folds at every leaf).
// The node budget keeps balanced trees from blowing up; linear chains (table lookups) of a few hundred entries pass.
func iteConstLeaves(t *Term, depth int) bool {
	if t.Op == OpConst {
		return true
	}
	if t.Op != OpIte {
		return false
	}
	budget := 700
	return iteLeavesConst(t, &budget)
}

func iteLeavesConst(t *Term, budget *int) bool {
	for {
		*budget--
		if *budget < 0 {
			return false
		}
		if t.Op == OpConst {
			return true
		}
		if t.Op != OpIte {
			return false
		}
		// recurse into the smaller-looking branch, loop on the other (chains are right-nested)
		if !iteLeavesConst(t.Args[1], budget) {
			return false
		}
		t = t.Args[2]
	}
}

func (c *Ctx) mapIte(t *Term, f func(*Term) *Term) *Term {
	if t.Op == OpIte {
		return c.Ite(t.Args[0], c.mapIte(t.Args[1], f), c.mapIte(t.Args[2], f))
	}
	return f(t)
}

const iteDepth = 9

// Bin builds a bit-vector binary operation (both args width w).
func (c *Ctx) Bin(op Op, a, b *Term) *Term {
	if a.W != b.W {
		panic(fmt.Sprintf("smt.Bin %v: width mismatch %d vs %d", opNames[op], a.W, b.W))
	}
	w := a.W
	if a.IsConst() && b.IsConst() {
		if v, ok := foldBin(op, a.Val, b.Val, w); ok {
			return c.Const(v, w)
		}
	}
	// ite lifting over constants
	if b.IsConst() && a.Op == OpIte && iteConstLeaves(a, iteDepth) {
		return c.mapIte(a, func(x *Term) *Term { return c.Bin(op, x, b) })
	}
	if a.IsConst() && b.Op == OpIte && iteConstLeaves(b, iteDepth) {
		return c.mapIte(b, func(x *Term) *Term { return c.Bin(op, a, x) })
	}
	switch op {
	case OpAdd:
		if a.IsConst() && a.Val == 0 {
			return b
		}
		if b.IsConst() && b.Val == 0 {
			return a
		}
		if a.IsConst() && !b.IsConst() {
			a, b = b, a
		}
		// (x + c1) + c2
		if b.IsConst() && a.Op == OpAdd && a.Args[1].IsConst() {
			return c.Bin(OpAdd, a.Args[0], c.Const(a.Args[1].Val+b.Val, w))
		}
	case OpSub:
		if b.IsConst() && b.Val == 0 {
			return a
		}
		if a == b {
			return c.Const(0, w)
		}
		if b.IsConst() {
			return c.Bin(OpAdd, a, c.Const(-b.Val, w))
		}
	case OpMul:
		if a.IsConst() && !b.IsConst() {
			a, b = b, a
		}
		if b.IsConst() && b.Val == 0 {
			return b
		}
		if b.IsConst() && b.Val == 1 {
			return a
		}
	case OpAnd:
		if a.IsConst() && !b.IsConst() {
			a, b = b, a
		}
		if b.IsConst() && b.Val == 0 {
			return b
		}
		if b.IsConst() && b.Val == mask(w) {
			return a
		}
		if a == b {
			return a
		}
		// and(zext(x), m) where m covers x fully
		if b.IsConst() && a.Op == OpZExt && b.Val&mask(a.Args[0].W) == mask(a.Args[0].W) {
			return a
		}
		if b.IsConst() && a.Op == OpZExt && b.Val&mask(a.Args[0].W) == 0 {
			return c.Const(0, w)
		}
	case OpOr:
		if a.IsConst() && !b.IsConst() {
			a, b = b, a
		}
		if b.IsConst() && b.Val == 0 {
			return a
		}
		if b.IsConst() && b.Val == mask(w) {
			return b
		}
		if a == b {
			return a
		}
	case OpXor:
		if a.IsConst() && !b.IsConst() {
			a, b = b, a
		}
		if b.IsConst() && b.Val == 0 {
			return a
		}
		if a == b {
			return c.Const(0, w)
		}
	case OpShl, OpLShr, OpAShr:
		if b.IsConst() && b.Val == 0 {
			return a
		}
		if b.IsConst() && b.Val >= uint64(w) && op != OpAShr {
			return c.Const(0, w)
		}
		if a.IsConst() && a.Val == 0 {
			return a
		}
		// lshr(zext(x), k) with k >= width(x) == 0
		if op == OpLShr && b.IsConst() && a.Op == OpZExt && b.Val >= uint64(a.Args[0].W) {
			return c.Const(0, w)
		}
	}
	return c.mk(op, w, 0, "", []*Term{a, b})
}

func foldBin(op Op, x, y uint64, w int) (uint64, bool) {
	m := mask(w)
	x &= m
	y &= m
	switch op {
	case OpAdd:
		return (x + y) & m, true
	case OpSub:
		return (x - y) & m, true
	case OpMul:
		return (x * y) & m, true
	case OpUDiv:
		if y == 0 {
			return m, true
		}
		return x / y, true
	case OpURem:
		if y == 0 {
			return x, true
		}
		return x % y, true
	case OpSDiv:
		if y == 0 {
			return 0, false
		}
		sx, sy := sext(x, w), sext(y, w)
		if sy == -1 {
			return uint64(-sx) & m, true
		}
		return uint64(sx/sy) & m, true
	case OpSRem:
		if y == 0 {
			return 0, false
		}
		sx, sy := sext(x, w), sext(y, w)
		if sy == -1 {
			return 0, true
		}
		return uint64(sx%sy) & m, true
	case OpAnd:
		return x & y, true
	case OpOr:
		return x | y, true
	case OpXor:
		return x ^ y, true
	case OpShl:
		if y >= uint64(w) {
			return 0, true
		}
		return (x << y) & m, true
	case OpLShr:
		if y >= uint64(w) {
			return 0, true
		}
		return x >> y, true
	case OpAShr:
		sx := sext(x, w)
		if y >= uint64(w) {
			y = uint64(w - 1)
		}
		return uint64(sx>>y) & m, true
	}
	return 0, false
}

func (c *Ctx) Not(a *Term) *Term { // bvnot
	if a.IsConst() {
		return c.Const(^a.Val, a.W)
	}
	if a.Op == OpNot {
		return a.Args[0]
	}
	return c.mk(OpNot, a.W, 0, "", []*Term{a})
}

func (c *Ctx) Neg(a *Term) *Term {
	if a.IsConst() {
		return c.Const(-a.Val, a.W)
	}
	return c.mk(OpNeg, a.W, 0, "", []*Term{a})
}

func (c *Ctx) ZExt(a *Term, w int) *Term {
	if a.W == w {
		return a
	}
	if a.W > w {
		return c.Extract(a, 0, w)
	}
	if a.IsConst() {
		return c.Const(a.Val, w)
	}
	if a.Op == OpZExt {
		return c.ZExt(a.Args[0], w)
	}
	if a.Op == OpIte && iteConstLeaves(a, iteDepth) {
		return c.mapIte(a, func(x *Term) *Term { return c.ZExt(x, w) })
	}
	return c.mk(OpZExt, w, 0, "", []*Term{a})
}

func (c *Ctx) SExt(a *Term, w int) *Term {
	if a.W == w {
		return a
	}
	if a.W > w {
		return c.Extract(a, 0, w)
	}
	if a.IsConst() {
		return c.Const(uint64(sext(a.Val, a.W)), w)
	}
	if a.Op == OpZExt { // zero-extended value is non-negative
		return c.ZExt(a.Args[0], w)
	}
	if a.Op == OpIte && iteConstLeaves(a, iteDepth) {
		return c.mapIte(a, func(x *Term) *Term { return c.SExt(x, w) })
	}
	return c.mk(OpSExt, w, 0, "", []*Term{a})
}

// Extract bits [lo, lo+w).
func (c *Ctx) Extract(a *Term, lo, w int) *Term {
	if lo == 0 && w == a.W {
		return a
	}
	if lo+w > a.W {
		panic("smt.Extract out of range")
	}
	if a.IsConst() {
		return c.Const(a.Val>>uint(lo), w)
	}
	switch a.Op {
	case OpZExt, OpSExt:
		in := a.Args[0]
		if lo+w <= in.W {
			return c.Extract(in, lo, w)
		}
		if a.Op == OpZExt && lo >= in.W {
			return c.Const(0, w)
		}
	case OpExtract:
		return c.Extract(a.Args[0], int(a.Val)+lo, w)
	case OpIte:
		if iteConstLeaves(a, iteDepth) {
			return c.mapIte(a, func(x *Term) *Term { return c.Extract(x, lo, w) })
		}
	case OpAnd, OpOr, OpXor:
		if lo == 0 {
			return c.Bin(a.Op, c.Extract(a.Args[0], 0, w), c.Extract(a.Args[1], 0, w))
		}
	case OpAdd, OpSub, OpMul:
		if lo == 0 {
			return c.Bin(a.Op, c.Extract(a.Args[0], 0, w), c.Extract(a.Args[1], 0, w))
		}
	case OpShl:
		// extract low bits of (x << k): if k >= w the result is 0
		if lo == 0 && a.Args[1].IsConst() && a.Args[1].Val >= uint64(w) {
			return c.Const(0, w)
		}
	case OpLShr:
		// extract(lshr(x,k), 0, w) = extract(x, k, w) when k+w <= width
		if lo == 0 && a.Args[1].IsConst() && int(a.Args[1].Val)+w <= a.W {
			return c.Extract(a.Args[0], int(a.Args[1].Val), w)
		}
	case OpConcat:
		hi, lw := a.Args[0], a.Args[1]
		if lo+w <= lw.W {
			return c.Extract(lw, lo, w)
		}
		if lo >= lw.W {
			return c.Extract(hi, lo-lw.W, w)
		}
	}
	return c.mk(OpExtract, w, uint64(lo), "", []*Term{a})
}

func (c *Ctx) Concat(hi, lo *Term) *Term {
	if hi.IsConst() && lo.IsConst() && hi.W+lo.W <= 64 {
		return c.Const(hi.Val<<uint(lo.W)|lo.Val, hi.W+lo.W)
	}
	return c.mk(OpConcat, hi.W+lo.W, 0, "", []*Term{hi, lo})
}

func (c *Ctx) Ite(cond, a, b *Term) *Term {
	if cond.IsTrue() {
		return a
	}
	if cond.IsFalse() {
		return b
	}
	if a == b {
		return a
	}
	if a.W == 0 {
		if a.IsTrue() && b.IsFalse() {
			return cond
		}
		if a.IsFalse() && b.IsTrue() {
			return c.BNot(cond)
		}
		if a.IsTrue() {
			return c.BOr(cond, b)
		}
		if b.IsFalse() {
			return c.BAnd(cond, a)
		}
		if a.IsFalse() {
			return c.BAnd(c.BNot(cond), b)
		}
		if b.IsTrue() {
			return c.BOr(c.BNot(cond), a)
		}
	}
	return c.mk(OpIte, a.W, 0, "", []*Term{cond, a, b})
}

func (c *Ctx) BNot(a *Term) *Term {
	if a.IsTrue() {
		return c.False
	}
	if a.IsFalse() {
		return c.True
	}
	if a.Op == OpBNot {
		return a.Args[0]
	}
	return c.mk(OpBNot, 0, 0, "", []*Term{a})
}

func (c *Ctx) BAnd(xs ...*Term) *Term {
	var out []*Term
	seen := map[int]bool{}
	for _, x := range xs {
		if x.IsFalse() {
			return c.False
		}
		if x.IsTrue() || seen[x.ID] {
			continue
		}
		if x.Op == OpBAnd {
			for _, y := range x.Args {
				if !seen[y.ID] {
					seen[y.ID] = true
					out = append(out, y)
				}
			}
			continue
		}
		seen[x.ID] = true
		out = append(out, x)
	}
	for _, x := range out {
		if x.Op == OpBNot && seen[x.Args[0].ID] {
			return c.False
		}
	}
	if len(out) == 0 {
		return c.True
	}
	if len(out) == 1 {
		return out[0]
	}
	return c.mk(OpBAnd, 0, 0, "", out)
}

func (c *Ctx) BOr(xs ...*Term) *Term {
	var out []*Term
	seen := map[int]bool{}
	for _, x := range xs {
		if x.IsTrue() {
			return c.True
		}
		if x.IsFalse() || seen[x.ID] {
			continue
		}
		if x.Op == OpBOr {
			for _, y := range x.Args {
				if !seen[y.ID] {
					seen[y.ID] = true
					out = append(out, y)
				}
			}
			continue
		}
		seen[x.ID] = true
		out = append(out, x)
	}
	for _, x := range out {
		if x.Op == OpBNot && seen[x.Args[0].ID] {
			return c.True
		}
	}
	if len(out) == 0 {
		return c.False
	}
	if len(out) == 1 {
		return out[0]
	}
	return c.mk(OpBOr, 0, 0, "", out)
}

// range of values a term can take when trivially known (unsigned): [0, max]
func umax(t *Term) uint64 {
	switch t.Op {
	case OpConst:
		return t.Val
	case OpZExt:
		return umax(t.Args[0])
	case OpExtract:
		lo := uint(t.Val)
		if a := umax(t.Args[0]); lo < 64 && a>>lo <= mask(t.W) {
			return a >> lo
		}
	case OpIte:
		a, b := umax(t.Args[1]), umax(t.Args[2])
		if a > b {
			return a
		}
		return b
	case OpAnd:
		a, b := umax(t.Args[0]), umax(t.Args[1])
		if a < b {
			return a
		}
		return b
	case OpLShr:
		if t.Args[1].IsConst() && t.Args[1].Val < 64 {
			return umax(t.Args[0]) >> t.Args[1].Val
		}
	case OpOr, OpXor:
		a, b := umax(t.Args[0]), umax(t.Args[1])
		if a < b {
			a = b
		}
		if a == 0 {
			return 0
		}
		return mask(bits.Len64(a))
	case OpShl:
		if t.Args[1].IsConst() {
			a := umax(t.Args[0])
			k := t.Args[1].Val
			if k < 64 && bits.Len64(a)+int(k) <= t.W && bits.Len64(a)+int(k) <= 64 {
				return a << k
			}
		}
	}
	return mask(t.W)
}

func (c *Ctx) Eq(a, b *Term) *Term {
	if a.W != b.W {
		panic(fmt.Sprintf("smt.Eq: width mismatch %d vs %d", a.W, b.W))
	}
	if a == b {
		return c.True
	}
	if a.IsConst() && b.IsConst() {
		return c.Bool(a.Val == b.Val)
	}
	if a.IsConst() {
		a, b = b, a
	}
	if a.W == 0 {
		if b.IsTrue() {
			return a
		}
		if b.IsFalse() {
			return c.BNot(a)
		}
	}
	if b.IsConst() {
		switch a.Op {
		case OpZExt:
			in := a.Args[0]
			if b.Val > mask(in.W) {
				return c.False
			}
			return c.Eq(in, c.Const(b.Val, in.W))
		case OpIte:
			if iteConstLeaves(a, iteDepth) {
				return c.mapIte(a, func(x *Term) *Term { return c.Eq(x, b) })
			}
		case OpAdd:
			if a.Args[1].IsConst() {
				return c.Eq(a.Args[0], c.Const(b.Val-a.Args[1].Val, a.W))
			}
		}
		if b.Val > umax(a) {
			return c.False
		}
	}
	if a.Op == OpZExt && b.Op == OpZExt && a.Args[0].W == b.Args[0].W {
		return c.Eq(a.Args[0], b.Args[0])
	}
	if (a.Op == OpIte) != (b.Op == OpIte) && a.W > 0 {
		// table[x] == y: compare y with every table entry, which folds away the entries y cannot take
		it, o := a, b
		if b.Op == OpIte {
			it, o = b, a
		}
		if iteConstLeaves(it, iteDepth) {
			return c.mapIte(it, func(x *Term) *Term { return c.Eq(o, x) })
		}
	}
	if a.Op == OpIte && b.Op == OpIte {
		// the same injective constant table indexed twice (e.g. two hex digits): compare the indexes
		if ta, ok := c.AsTable(a); ok && ta.X.W > 0 {
			if tb, ok := c.AsTable(b); ok {
				if sameTable(ta, tb) && ta.injective() && tb.injective() {
					return c.Eq(ta.X, tb.X)
				}
				// two different tables: they can only agree on a value both contain
				inA := map[uint64]bool{ta.Def: true}
				for _, v := range ta.Vals {
					inA[v] = true
				}
				var common []uint64
				seen := map[uint64]bool{}
				for _, v := range append(append([]uint64{}, tb.Vals...), tb.Def) {
					if inA[v] && !seen[v] {
						seen[v] = true
						common = append(common, v)
					}
				}
				if len(common) <= 4 {
					var alts []*Term
					for _, v := range common {
						k := c.Const(v, a.W)
						alts = append(alts, c.BAnd(c.Eq(a, k), c.Eq(b, k)))
					}
					return c.BOr(alts...)
				}
			}
		}
	}
	if a.ID > b.ID && !b.IsConst() {
		a, b = b, a
	}
	return c.mk(OpEq, 0, 0, "", []*Term{a, b})
}

func (c *Ctx) Cmp(op Op, a, b *Term) *Term {
	if a.W != b.W {
		panic(fmt.Sprintf("smt.Cmp: width mismatch %d vs %d", a.W, b.W))
	}
	w := a.W
	if a.IsConst() && b.IsConst() {
		switch op {
		case OpULt:
			return c.Bool(a.Val < b.Val)
		case OpULe:
			return c.Bool(a.Val <= b.Val)
		case OpSLt:
			return c.Bool(sext(a.Val, w) < sext(b.Val, w))
		case OpSLe:
			return c.Bool(sext(a.Val, w) <= sext(b.Val, w))
		}
	}
	if a == b {
		return c.Bool(op == OpULe || op == OpSLe)
	}
	if b.IsConst() && a.Op == OpIte && iteConstLeaves(a, iteDepth) {
		return c.mapIte(a, func(x *Term) *Term { return c.Cmp(op, x, b) })
	}
	if a.IsConst() && b.Op == OpIte && iteConstLeaves(b, iteDepth) {
		return c.mapIte(b, func(x *Term) *Term { return c.Cmp(op, a, x) })
	}
	// cheap range reasoning for unsigned-bounded terms
	top := uint64(1) << uint(w-1)
	ma, mb := umax(a), umax(b)
	signedOK := ma < top && mb < top // both non-negative as signed
	if op == OpSLt && signedOK {
		op = OpULt
	}
	if op == OpSLe && signedOK {
		op = OpULe
	}
	switch op {
	case OpULt:
		if b.IsConst() && ma < b.Val {
			return c.True
		}
		if b.IsConst() && b.Val == 0 {
			return c.False
		}
		if a.IsConst() && a.Val >= mb {
			return c.False
		}
		// zext(x) < const
		if b.IsConst() && a.Op == OpZExt {
			in := a.Args[0]
			if b.Val <= mask(in.W) {
				return c.Cmp(OpULt, in, c.Const(b.Val, in.W))
			}
		}
		if a.IsConst() && b.Op == OpZExt {
			in := b.Args[0]
			if a.Val <= mask(in.W) {
				return c.Cmp(OpULt, c.Const(a.Val, in.W), in)
			}
		}
	case OpULe:
		if b.IsConst() && ma <= b.Val {
			return c.True
		}
		if a.IsConst() && a.Val == 0 {
			return c.True
		}
		if a.IsConst() && a.Val > mb {
			return c.False
		}
		if b.IsConst() && a.Op == OpZExt {
			in := a.Args[0]
			if b.Val <= mask(in.W) {
				return c.Cmp(OpULe, in, c.Const(b.Val, in.W))
			}
		}
		if a.IsConst() && b.Op == OpZExt {
			in := b.Args[0]
			if a.Val <= mask(in.W) {
				return c.Cmp(OpULe, c.Const(a.Val, in.W), in)
			}
		}
	}
	if a.Op == OpZExt && b.Op == OpZExt && a.Args[0].W == b.Args[0].W && (op == OpULt || op == OpULe) {
		return c.Cmp(op, a.Args[0], b.Args[0])
	}
	return c.mk(op, 0, 0, "", []*Term{a, b})
}

// ---- printing ----

func (t *Term) sortString() string {
	if t.W == 0 {
		return "Bool"
	}
	return fmt.Sprintf("(_ BitVec %d)", t.W)
}

// Ref is the name by which a term is referenced in solver input.
func (t *Term) Ref() string {
	switch t.Op {
	case OpConst:
		if t.W == 0 {
			if t.Val != 0 {
				return "true"
			}
			return "false"
		}
		return fmt.Sprintf("(_ bv%d %d)", t.Val, t.W)
	case OpVar:
		return t.Name
	}
	return fmt.Sprintf("t%d", t.ID)
}

func (t *Term) body() string {
	var sb strings.Builder
	switch t.Op {
	case OpZExt:
		fmt.Fprintf(&sb, "((_ zero_extend %d) %s)", t.W-t.Args[0].W, t.Args[0].Ref())
	case OpSExt:
		fmt.Fprintf(&sb, "((_ sign_extend %d) %s)", t.W-t.Args[0].W, t.Args[0].Ref())
	case OpExtract:
		fmt.Fprintf(&sb, "((_ extract %d %d) %s)", int(t.Val)+t.W-1, t.Val, t.Args[0].Ref())
	default:
		sb.WriteString("(" + opNames[t.Op])
		for _, a := range t.Args {
			sb.WriteString(" " + a.Ref())
		}
		sb.WriteString(")")
	}
	return sb.String()
}

// Emit writes the declarations/definitions needed for t (and not yet emitted in this solver) to w.
func (c *Ctx) Emit(t *Term, emitted map[int]bool, w *strings.Builder) {
	if emitted[t.ID] || t.Op == OpConst {
		return
	}
	// iterative post-order to avoid deep recursion
	type fr struct {
		t *Term
		i int
	}
	stack := []fr{{t, 0}}
	for len(stack) > 0 {
		f := &stack[len(stack)-1]
		if emitted[f.t.ID] || f.t.Op == OpConst {
			stack = stack[:len(stack)-1]
			continue
		}
		if f.i < len(f.t.Args) {
			a := f.t.Args[f.i]
			f.i++
			if !emitted[a.ID] && a.Op != OpConst {
				stack = append(stack, fr{a, 0})
			}
			continue
		}
		tt := f.t
		if tt.Op == OpVar {
			fmt.Fprintf(w, "(declare-const %s %s)\n", tt.Name, tt.sortString())
		} else {
			fmt.Fprintf(w, "(define-fun %s () %s %s)\n", tt.Ref(), tt.sortString(), tt.body())
		}
		emitted[tt.ID] = true
		stack = stack[:len(stack)-1]
	}
}

// VarsOf collects the variables in the cone of t.
func VarsOf(ts []*Term) []*Term {
	seen := map[int]bool{}
	var out []*Term
	var stack []*Term
	stack = append(stack, ts...)
	for len(stack) > 0 {
		t := stack[len(stack)-1]
		stack = stack[:len(stack)-1]
		if seen[t.ID] {
			continue
		}
		seen[t.ID] = true
		if t.Op == OpVar {
			out = append(out, t)
		}
		stack = append(stack, t.Args...)
	}
	return out
}

// Eval evaluates t under an assignment of variables (missing = 0).
func Eval(t *Term, env map[string]uint64, memo map[int]uint64) uint64 {
	if v, ok := memo[t.ID]; ok {
		return v
	}
	var r uint64
	a := func(i int) uint64 { return Eval(t.Args[i], env, memo) }
	b2u := func(b bool) uint64 {
		if b {
			return 1
		}
		return 0
	}
	switch t.Op {
	case OpConst:
		r = t.Val
	case OpVar:
		r = env[t.Name] & mask1(t.W)
	case OpNot:
		r = ^a(0) & mask(t.W)
	case OpNeg:
		r = -a(0) & mask(t.W)
	case OpZExt:
		r = a(0)
	case OpSExt:
		r = uint64(sext(a(0), t.Args[0].W)) & mask(t.W)
	case OpExtract:
		r = (a(0) >> t.Val) & mask(t.W)
	case OpConcat:
		r = (a(0)<<uint(t.Args[1].W) | a(1)) & mask(t.W)
	case OpIte:
		if a(0) != 0 {
			r = a(1)
		} else {
			r = a(2)
		}
	case OpEq:
		r = b2u(a(0) == a(1))
	case OpULt:
		r = b2u(a(0) < a(1))
	case OpULe:
		r = b2u(a(0) <= a(1))
	case OpSLt:
		r = b2u(sext(a(0), t.Args[0].W) < sext(a(1), t.Args[0].W))
	case OpSLe:
		r = b2u(sext(a(0), t.Args[0].W) <= sext(a(1), t.Args[0].W))
	case OpBAnd:
		r = 1
		for i := range t.Args {
			if a(i) == 0 {
				r = 0
				break
			}
		}
	case OpBOr:
		r = 0
		for i := range t.Args {
			if a(i) != 0 {
				r = 1
				break
			}
		}
	case OpBNot:
		r = b2u(a(0) == 0)
	default:
		x, y := a(0), a(1)
		v, ok := foldBin(t.Op, x, y, t.W)
		if !ok { // division by zero per SMT-LIB
			switch t.Op {
			case OpSDiv:
				if sext(x, t.W) < 0 {
					v = 1
				} else {
					v = mask(t.W)
				}
			case OpSRem:
				v = x
			}
		}
		r = v
	}
	memo[t.ID] = r
	return r
}

func mask1(w int) uint64 {
	if w == 0 {
		return 1
	}
	return mask(w)
}

// Subst rebuilds t with variables replaced according to m (by variable name).
func (c *Ctx) Subst(t *Term, m map[string]*Term, memo map[int]*Term) *Term {
	if r, ok := memo[t.ID]; ok {
		return r
	}
	var r *Term
	switch t.Op {
	case OpConst:
		r = t
	case OpVar:
		if v, ok := m[t.Name]; ok {
			r = v
		} else {
			r = t
		}
	default:
		args := make([]*Term, len(t.Args))
		changed := false
		for i, a := range t.Args {
			args[i] = c.Subst(a, m, memo)
			if args[i] != a {
				changed = true
			}
		}
		if !changed {
			r = t
		} else {
			r = c.rebuild(t, args)
		}
	}
	memo[t.ID] = r
	return r
}

func (c *Ctx) rebuild(t *Term, a []*Term) *Term {
	switch t.Op {
	case OpNot:
		return c.Not(a[0])
	case OpNeg:
		return c.Neg(a[0])
	case OpZExt:
		return c.ZExt(a[0], t.W)
	case OpSExt:
		return c.SExt(a[0], t.W)
	case OpExtract:
		return c.Extract(a[0], int(t.Val), t.W)
	case OpConcat:
		return c.Concat(a[0], a[1])
	case OpIte:
		return c.Ite(a[0], a[1], a[2])
	case OpEq:
		return c.Eq(a[0], a[1])
	case OpULt, OpULe, OpSLt, OpSLe:
		return c.Cmp(t.Op, a[0], a[1])
	case OpBAnd:
		return c.BAnd(a...)
	case OpBOr:
		return c.BOr(a...)
	case OpBNot:
		return c.BNot(a[0])
	}
	return c.Bin(t.Op, a[0], a[1])
}

module verif/engine

go 1.23

require golang.org/x/tools v0.29.0

require (
	github.com/cossacklabs/pg_query_go/v5 v5.1.0
	golang.org/x/mod v0.22.0 // indirect
	golang.org/x/sync v0.10.0 // indirect
	google.golang.org/protobuf v1.33.0
)

// gosmt: bounded symbolic execution of Go functions (go/ssa) with an SMT solver.
package main

import (
	"encoding/json"
	"flag"
	"fmt"
	"os"
	"path/filepath"
	"runtime/pprof"
	"sort"
	"strings"
	"sync"
	"time"

	"golang.org/x/tools/go/packages"
	"golang.org/x/tools/go/ssa"
	"golang.org/x/tools/go/ssa/ssautil"

	"verif/engine/interp"
)

type HarnessResult struct {
	Harness    string              `json:"harness"`
	Pkg        string              `json:"pkg"`
	Paths      int                 `json:"paths"`
	PathsOK    int                 `json:"paths_completed"`
	Infeasible int                 `json:"paths_infeasible"`
	Aborted    map[string]int      `json:"aborted"`
	Decisions  int                 `json:"decisions"`
	Findings   []*FindingOut       `json:"findings"`
	Reach      map[string]int      `json:"reach"`
	Asserts    map[string]int      `json:"asserts_checked"`
	AssertUnk  map[string]int      `json:"asserts_unknown"`
	Samples    []interp.PathSample `json:"samples"`
	Queries    int                 `json:"queries"`
	QSat       int                 `json:"queries_sat"`
	QUnsat     int                 `json:"queries_unsat"`
	QUnknown   int                 `json:"queries_unknown"`
	SolverS    float64             `json:"solver_s"`
	WallS      float64             `json:"wall_s"`
	BudgetHit  string              `json:"budget_hit"`
	ForkSites  map[string]int      `json:"fork_sites"`
	Funcs      []string            `json:"functions_encoded"`
	SolverErrs []string            `json:"solver_errors,omitempty"`
	Terms      int                 `json:"terms"`
	Error      string              `json:"error,omitempty"`
}

type FindingOut struct {
	Kind      string              `json:"kind"`
	Site      string              `json:"site"`
	Msg       string              `json:"msg"`
	Count     int                 `json:"count"`
	Inputs    map[string]string   `json:"inputs"` // hex
	Ints      map[string]int64    `json:"ints"`
	Bools     map[string]bool     `json:"bools"`
	Fresh     map[string][]string `json:"fresh"`
	Decisions []int               `json:"decisions"`
}

type Output struct {
	LoadS   float64          `json:"load_s"`
	Results []*HarnessResult `json:"results"`
	LoadErr string           `json:"load_error,omitempty"`
}

var stdAllowInit = map[string]bool{}

func main() {
	repo := flag.String("repo", "/repo", "repository root")
	modfile := flag.String("modfile", "", "alternative go.mod (with gothemis replace)")
	pkgRel := flag.String("pkg", "", "package directory relative to repo, e.g. ./decryptor/mysql/base")
	hroot := flag.String("harnessroot", "/verif/harness", "directory tree overlaid onto the repo")
	harnesses := flag.String("harness", "", "comma-separated harness function names (default: all Verif* in the harness files of pkg)")
	workers := flag.Int("workers", 8, "parallel workers")
	maxPaths := flag.Int("maxpaths", 20000, "path budget per harness")
	qtimeout := flag.Duration("qtimeout", 60*time.Second, "per-query solver timeout")
	budget := flag.Duration("budget", 10*time.Minute, "wall budget per harness")
	solver := flag.String("solver", "z3-new", "z3 | z3-new | cvc5")
	out := flag.String("out", "", "result JSON path")
	initlog := flag.Bool("initlog", false, "log tolerated init failures")
	concrete := flag.Bool("concrete", false, "run harness concretely (no explorer); verif inputs come from VERIF_MODEL")
	trace := flag.Bool("trace", false, "trace")
	tags := flag.String("tags", "verif", "build tags")
	tier := flag.String("tier", "quick", "quick | thorough")
	cpuprof := flag.String("cpuprofile", "", "write cpu profile")
	flag.StringVar(&smtlogDir, "smtlog", "", "directory for solver transcripts")
	flag.Parse()

	_ = trace
	if *tier == "thorough" {
		interp.Tier = 1
	}

	t0 := time.Now()
	overlay := map[string][]byte{}
	filepath.Walk(*hroot, func(p string, info os.FileInfo, err error) error {
		if err != nil || info.IsDir() || !strings.HasSuffix(p, ".go") {
			return nil
		}
		rel, _ := filepath.Rel(*hroot, p)
		b, err := os.ReadFile(p)
		if err == nil {
			overlay[filepath.Join(*repo, rel)] = b
		}
		return nil
	})
	flags := []string{"-tags=" + *tags}
	if *modfile != "" {
		flags = append(flags, "-modfile="+*modfile)
	}
	cfg := &packages.Config{Mode: packages.LoadAllSyntax, Dir: *repo, Overlay: overlay, BuildFlags: flags,
		Env: append(os.Environ(), "GOFLAGS=-mod=mod", "GOPROXY=off", "GOSUMDB=off", "GOTOOLCHAIN=local")}
	patterns := []string{*pkgRel, "./zz_verif/model"}
	pkgs, err := packages.Load(cfg, patterns...)
	output := &Output{}
	writeOut := func() {
		b, _ := json.MarshalIndent(output, "", " ")
		if *out != "" {
			os.WriteFile(*out, b, 0644)
		} else {
			os.Stdout.Write(b)
		}
	}
	if err != nil {
		output.LoadErr = err.Error()
		writeOut()
		os.Exit(3)
	}
	var errs []string
	packages.Visit(pkgs, nil, func(p *packages.Package) {
		for _, e := range p.Errors {
			errs = append(errs, e.Error())
		}
	})
	if len(errs) > 0 {
		if len(errs) > 20 {
			errs = errs[:20]
		}
		output.LoadErr = strings.Join(errs, "\n")
		writeOut()
		fmt.Fprintln(os.Stderr, "LOAD ERRORS:\n"+output.LoadErr)
		os.Exit(3)
	}
	prog, ssapkgs := ssautil.AllPackages(pkgs, ssa.InstantiateGenerics)
	prog.Build()
	output.LoadS = time.Since(t0).Seconds()
	fmt.Fprintf(os.Stderr, "loaded+built in %.1fs\n", output.LoadS)

	hpkg := ssapkgs[0]
	var model *ssa.Package
	if len(ssapkgs) > 1 {
		model = ssapkgs[1]
	}
	for _, p := range ssapkgs {
		if p != nil && strings.HasSuffix(p.Pkg.Path(), "/zz_verif/model") {
			model = p
		} else if p != nil {
			hpkg = p
		}
	}

	icfg := &interp.Config{InitLog: *initlog, Redirect: map[string]*ssa.Function{}}
	allow := map[string]bool{}
	for _, p := range strings.Split("unicode,unicode/utf8,unicode/utf16,strings,bytes,strconv,io,sort,encoding/hex,encoding/binary,encoding/base64,math/bits,container/list,fmt,path/filepath,path,hash,hash/crc32,crypto,math,slices,maps,bufio,encoding,io/ioutil,os,syscall,time,internal/oserror,internal/poll,io/fs,errors,context,crypto/rand,math/rand", ",") {
		allow[p] = true
	}
	// errors/context/os/time/syscall initialisers need reflectlite or the runtime: keep them off
	for _, p := range []string{"context", "errors"} {
		delete(allow, p)
	}
	icfg.AllowInit = func(p string) bool {
		return strings.HasPrefix(p, "github.com/cossacklabs/") || allow[p]
	}
	icfg.NoOpPkg = func(p string) bool {
		return strings.HasPrefix(p, "github.com/sirupsen/logrus") || strings.HasPrefix(p, "github.com/prometheus/") ||
			strings.HasPrefix(p, "go.opencensus.io") || p == "regexp"
	}
	if model != nil {
		// model package declares redirects in a map literal: Redirects = map[string]string{"crypto/sha256.New": "NewSha256", ...}
		for from, to := range modelRedirects {
			if f := model.Func(to); f != nil {
				icfg.Redirect[from] = f
			}
		}
	}
	m := interp.NewMachine(prog, icfg)
	if model != nil {
		m.ExtraInit = append(m.ExtraInit, model)
	}
	if *cpuprof != "" {
		f, _ := os.Create(*cpuprof)
		pprof.StartCPUProfile(f)
	}

	var names []string
	if *harnesses != "" {
		names = strings.Split(*harnesses, ",")
	} else {
		for n, mem := range hpkg.Members {
			if _, ok := mem.(*ssa.Function); ok && strings.HasPrefix(n, "Verif") {
				names = append(names, n)
			}
		}
		sort.Strings(names)
	}
	exit := 0
	for _, hn := range names {
		fn := hpkg.Func(hn)
		res := &HarnessResult{Harness: hn, Pkg: hpkg.Pkg.Path()}
		output.Results = append(output.Results, res)
		if fn == nil {
			res.Error = "harness function not found"
			exit = 3
			continue
		}
		if *concrete {
			msg := m.RunHarness(nil, hpkg, fn)
			res.Error = msg
			continue
		}
		runHarness(m, hpkg, fn, res, *workers, *maxPaths, *budget, *qtimeout, *solver)
		fmt.Fprintf(os.Stderr, "%s: paths=%d ok=%d infeasible=%d aborted=%v findings=%d queries=%d solver=%.1fs wall=%.1fs %s\n",
			hn, res.Paths, res.PathsOK, res.Infeasible, res.Aborted, len(res.Findings), res.Queries, res.SolverS, res.WallS, res.BudgetHit)
		writeOut()
	}
	writeOut()
	if *cpuprof != "" {
		pprof.StopCPUProfile()
	}
	os.Exit(exit)
}

var smtlogDir string

var modelRedirects = map[string]string{
	"crypto/sha256.New":                               "NewSha256",
	"crypto/sha256.Sum256":                            "Sum256",
	"crypto/sha512.New":                               "NewSha512",
	"crypto/hmac.New":                                 "NewHMAC",
	"crypto/hmac.Equal":                               "HMACEqual",
	"crypto/subtle.ConstantTimeCompare":               "ConstantTimeCompare",
	"encoding/asn1.Marshal":                           "ASN1Marshal",
	"encoding/asn1.Unmarshal":                         "ASN1Unmarshal",
	"github.com/golang/protobuf/proto.Marshal":        "ProtoMarshal",
	"github.com/tinylib/msgp/msgp.UnsafeString":       "MsgpUnsafeString",
	"github.com/cossacklabs/acra/utils.BytesToString": "MsgpUnsafeString",
	"encoding/gob.NewEncoder":                         "GobNewEncoder",
	"encoding/gob.NewDecoder":                         "GobNewDecoder",
	"(*encoding/gob.Encoder).Encode":                  "GobEncode",
	"(*encoding/gob.Decoder).Decode":                  "GobDecode",
	"(*github.com/cossacklabs/acra/keystore/v2/keystore.SerializedKeys).Marshal":   "SerializedKeysMarshal",
	"(*github.com/cossacklabs/acra/keystore/v2/keystore.SerializedKeys).Unmarshal": "SerializedKeysUnmarshal",
	"github.com/golang/protobuf/proto.Unmarshal":                                   "ProtoUnmarshal",
	"context.WithValue":   "WithValue",
	"context.Background":  "Background",
	"context.TODO":        "Background",
	"context.WithCancel":  "WithCancel",
	"context.WithTimeout": "WithTimeout",
	"errors.Is":           "ErrorsIs",
	"errors.As":           "ErrorsAs",
	"errors.Unwrap":       "ErrorsUnwrap",
	"fmt.Errorf":          "Errorf",
	"fmt.Sprintf":         "Sprintf",
	"fmt.Sprint":          "Sprint",
	"fmt.Sprintln":        "Sprintln",
	"fmt.Fprintf":         "Fprintf",
}

func runHarness(m *interp.Machine, pkg *ssa.Package, fn *ssa.Function, res *HarnessResult, workers, maxPaths int, budget, qtimeout time.Duration, solver string) {
	t0 := time.Now()
	sh := interp.NewShared(maxPaths, t0.Add(budget))
	var wg sync.WaitGroup
	exs := make([]*interp.Explorer, workers)
	for w := 0; w < workers; w++ {
		ex, err := interp.NewExplorer(sh, solver, qtimeout, fn.Name())
		if err != nil {
			res.Error = err.Error()
			return
		}
		exs[w] = ex
		if smtlogDir != "" {
			os.MkdirAll(smtlogDir, 0755)
			f, _ := os.Create(fmt.Sprintf("%s/%s_w%d.smt2", smtlogDir, fn.Name(), w))
			ex.Solver.Log = f
		}
		wg.Add(1)
		go func(ex *interp.Explorer) {
			defer wg.Done()
			defer func() {
				if r := recover(); r != nil {
					sh.Fatal(fmt.Sprintf("engine panic: %v", r))
					panic(r)
				}
			}()
			ex.Loop(func() { m.RunHarness(ex, pkg, fn) })
		}(ex)
	}
	wg.Wait()
	res.WallS = time.Since(t0).Seconds()
	res.Paths, res.PathsOK, res.Infeasible = sh.Paths, sh.PathsOK, sh.Infeasible
	res.Aborted = sh.Aborted
	res.Decisions = sh.Decisions
	res.Reach = sh.Reach
	res.Asserts = sh.Asserts
	res.AssertUnk = sh.AssertUnknown
	res.Samples = sh.Samples
	for i := range res.Samples {
		sp := &res.Samples[i]
		if sp.Model != nil {
			sp.Full = convertFinding(&interp.Finding{Kind: "sample", Model: sp.Model, Sizes: sp.Sizes, FreshSizes: sp.FreshSizes, Decisions: nil}, 1)
		}
	}
	res.BudgetHit = sh.BudgetHit
	res.ForkSites = sh.ForkSites
	funcs := map[string]bool{}
	for _, ex := range exs {
		res.Queries += ex.Solver.Queries
		res.QSat += ex.Solver.NSat
		res.QUnsat += ex.Solver.NUnsat
		res.QUnknown += ex.Solver.NUnk
		res.SolverS += ex.Solver.Time.Seconds()
		res.Terms += ex.Ctx.NumTerms()
		for f := range ex.Funcs {
			funcs[f] = true
		}
		if len(ex.Solver.Errors) > 0 && len(res.SolverErrs) < 5 {
			res.SolverErrs = append(res.SolverErrs, ex.Solver.Errors[0])
		}
		ex.Solver.Close()
	}
	for f := range funcs {
		res.Funcs = append(res.Funcs, f)
	}
	sort.Strings(res.Funcs)
	keys := make([]string, 0, len(sh.Findings))
	for k := range sh.Findings {
		keys = append(keys, k)
	}
	sort.Strings(keys)
	for _, k := range keys {
		f := sh.Findings[k]
		res.Findings = append(res.Findings, convertFinding(f, sh.FindingCount[k]))
	}
}

func convertFinding(f *interp.Finding, count int) *FindingOut {
	o := &FindingOut{Kind: f.Kind, Site: f.Site, Msg: f.Msg, Count: count, Inputs: map[string]string{}, Ints: map[string]int64{},
		Bools: map[string]bool{}, Fresh: map[string][]string{}, Decisions: f.Decisions}
	inputs := map[string][]byte{}
	for name, n := range f.Sizes {
		inputs[name] = make([]byte, n)
	}
	fresh := map[string][][]byte{}
	for cat, sizes := range f.FreshSizes {
		for _, n := range sizes {
			fresh[cat] = append(fresh[cat], make([]byte, n))
		}
	}
	for name, v := range f.Model {
		switch {
		case strings.HasPrefix(name, "in_"):
			i := strings.LastIndex(name, "_")
			var idx int
			fmt.Sscanf(name[i+1:], "%d", &idx)
			nm := name[3:i]
			if b, ok := inputs[nm]; ok && idx < len(b) {
				b[idx] = byte(v)
			}
		case strings.HasPrefix(name, "iv_"):
			i := strings.LastIndex(name, "_w")
			var w int
			fmt.Sscanf(name[i+2:], "%d", &w)
			sv := int64(v)
			if w < 64 {
				sh := uint(64 - w)
				sv = int64(v<<sh) >> sh
			}
			o.Ints[name[3:i]] = sv
		case strings.HasPrefix(name, "bv_"):
			o.Bools[name[3:]] = v != 0
		case strings.HasPrefix(name, "fr_"):
			parts := strings.Split(name[3:], "_")
			if len(parts) >= 3 {
				cat := strings.Join(parts[:len(parts)-2], "_")
				var k, idx int
				fmt.Sscanf(parts[len(parts)-2], "%d", &k)
				fmt.Sscanf(parts[len(parts)-1], "%d", &idx)
				if k < len(fresh[cat]) && idx < len(fresh[cat][k]) {
					fresh[cat][k][idx] = byte(v)
				}
			}
		}
	}
	for n, b := range inputs {
		o.Inputs[n] = fmt.Sprintf("%x", b)
	}
	for cat, list := range fresh {
		for _, b := range list {
			o.Fresh[cat] = append(o.Fresh[cat], fmt.Sprintf("%x", b))
		}
	}
	return o
}

// Glue between the stock interpreter and the symbolic layer.
package interp

import (
	"fmt"
	"go/token"
	"go/types"
	"os"
	"sort"
	"strings"
	"sync"

	"golang.org/x/tools/go/ssa"
	"verif/engine/smt"
)

func mustDeref(t types.Type) types.Type {
	if p, ok := t.Underlying().(*types.Pointer); ok {
		return p.Elem()
	}
	panic("mustDeref: not a pointer: " + t.String())
}

// Config controls which parts of the program are interpreted, stubbed or redirected.
type Config struct {
	AllowInit func(pkgPath string) bool
	NoOpPkg   func(pkgPath string) bool
	Redirect  map[string]*ssa.Function // full function name -> replacement
	InitLog   bool
}

func isControlPanic(r interface{}) bool {
	switch r.(type) {
	case pathInfeasible, pathAbort, uncaughtPanic, smt.SolverDied, coYield:
		return true
	}
	return false
}

func isInitFn(fn *ssa.Function) bool {
	return strings.HasPrefix(fn.Name(), "init") && fn.Parent() == nil && fn.Signature.Recv() == nil
}

// callTolerant runs a call made directly by a package initialiser; a call that cannot be
// interpreted yields the zero value so that initialisation continues.
func callTolerant(fr *frame, instr *ssa.Call, fn value, args []value) (res value) {
	defer func() {
		if r := recover(); r != nil {
			if _, ok := r.(smt.SolverDied); ok {
				panic(r)
			}
			if fr.i.cfg != nil && fr.i.cfg.InitLog {
				fmt.Fprintf(os.Stderr, "INIT-TOLERATED in %s: %v\n", fr.fn, r)
			}
			fr.i.panicActive = false
			if tup, ok := instr.Type().(*types.Tuple); ok && tup.Len() == 0 {
				res = nil
			} else {
				res = zero(instr.Type())
			}
		}
	}()
	return call(fr.i, fr, instr.Pos(), fn, args)
}

// preCall handles init allow-list, redirects and no-op packages.
func preCall(i *interpreter, caller *frame, callpos token.Pos, fn *ssa.Function, args []value, env []value) (value, bool) {
	cfg := i.cfg
	if cfg == nil {
		return nil, false
	}
	if fn.Name() == "init" && fn.Pkg != nil && fn.Synthetic != "" && fn.Signature.Recv() == nil {
		if !cfg.AllowInit(fn.Pkg.Pkg.Path()) {
			return nil, true
		}
	}
	if to, ok := cfg.Redirect[fn.String()]; ok && fn.Parent() == nil {
		return callSSA(i, caller, callpos, to, args, nil), true
	}
	if p := fn.Package(); p != nil && cfg.NoOpPkg(p.Pkg.Path()) {
		if ext := externals[fn.String()]; ext != nil {
			return nil, false
		}
		if i.ex != nil && i.ex.CaptureLogs && strings.HasSuffix(p.Pkg.Path(), "sirupsen/logrus") {
			for _, a := range args {
				collectLogBytes(i.ex, a, 0)
			}
		}
		return noopResult(fn.Signature), true
	}
	return nil, false
}

type noopFn struct{ sig *types.Signature }

func noopResult(sig *types.Signature) value {
	res := sig.Results()
	mk := func(t types.Type) value {
		if pt, ok := t.Underlying().(*types.Pointer); ok {
			if _, isStruct := pt.Elem().Underlying().(*types.Struct); isStruct {
				v := zero(pt.Elem())
				return &v
			}
		}
		return zero(t)
	}
	switch res.Len() {
	case 0:
		return nil
	case 1:
		return mk(res.At(0).Type())
	default:
		t := make(tuple, res.Len())
		for k := range t {
			t[k] = mk(res.At(k).Type())
		}
		return t
	}
}

func hasSymstr(v value) bool { _, ok := v.(symstr); return ok }

func binopSym(instr *ssa.BinOp, x, y value) value {
	t := instr.X.Type()
	if isSym(x) || isSym(y) {
		return symBinop(instr.Op, t, x, y, instr.Y.Type())
	}
	if hasSymstr(x) || hasSymstr(y) {
		return symStringBinop(instr.Op, x, y)
	}
	switch instr.Op {
	case token.EQL, token.NEQ:
		switch x.(type) {
		case structure, array, iface:
			if c := deepCtx(x, y); c != nil {
				tm := eqTerm(c, t, x, y)
				if instr.Op == token.NEQ {
					tm = c.BNot(tm)
				}
				if tm.IsConst() {
					return tm.Val != 0
				}
				return sym{tm}
			}
		}
	}
	return binop(instr.Op, t, x, y)
}

func unopSym(instr *ssa.UnOp, x value) value {
	if s, ok := x.(sym); ok {
		return symUnop(instr.Op, instr.Type(), s)
	}
	return unop(instr, x)
}

func convSym(tdst, tsrc types.Type, x value) value {
	if s, ok := x.(sym); ok {
		return symConv(tdst, tsrc, s)
	}
	return conv(tdst, tsrc, x)
}

func indexValue(instr *ssa.Index, x, idx value) value {
	var elems []value
	var et types.Type
	switch x := x.(type) {
	case array:
		elems = x
		et = instr.X.Type().Underlying().(*types.Array).Elem()
	case string:
		if !isSym(idx) {
			return x[asInt64(idx)]
		}
		elems, _ = strBytes(x)
		et = types.Typ[types.Uint8]
	case symstr:
		elems = x.bytes()
		et = types.Typ[types.Uint8]
	default:
		panic(fmt.Sprintf("unexpected x type in Index: %T", x))
	}
	if !isSym(idx) {
		return elems[asInt64(idx)]
	}
	if !inRangeT(idx, 0, int64(len(elems))-1, instr.Index.Type()) {
		panic(symRuntimeError{fmt.Sprintf("index out of range [sym] with length %d", len(elems))})
	}
	if isScalarType(et) {
		return selectElem(elems, idxTermT(idx, instr.Index.Type()), et)
	}
	return elems[concIntT(idx, instr.Index.Type(), "index")]
}

// allocSize concretises an allocation size, reporting sizes the input can push beyond the limit.
func allocSize(fr *frame, v value, msg string) int64 {
	s, ok := v.(sym)
	if !ok {
		n := asInt64(v)
		if n < 0 {
			panic(symRuntimeError{msg})
		}
		if fr.i.ex != nil && n > (1<<28) {
			panic(uncaughtPanic{"alloc", fr.fn.String(), fmt.Sprintf("allocation of %d elements", n)})
		}
		return n
	}
	e := exOf(s.t)
	c := s.t.C
	t := s.t
	if t.W < 64 {
		t = c.SExt(t, 64)
	}
	if e.Branch(c.Cmp(smt.OpSLt, t, c.Const(0, 64))) {
		panic(symRuntimeError{msg})
	}
	if e.Branch(c.Cmp(smt.OpSLt, c.Const(uint64(e.AllocLimit), 64), t)) {
		panic(uncaughtPanic{"alloc", fr.fn.String(), fmt.Sprintf("allocation size controlled by input can exceed %d elements", e.AllocLimit)})
	}
	return e.ForkValue(s.t, true, "alloc@"+fr.fn.String())
}

// ---- maps with symbolic keys ----

func keyHasSym(k value) bool {
	switch x := k.(type) {
	case sym, symstr:
		return true
	case structure:
		for _, f := range x {
			if keyHasSym(f) {
				return true
			}
		}
	case array:
		for _, f := range x {
			if keyHasSym(f) {
				return true
			}
		}
	case iface:
		return keyHasSym(x.v)
	}
	return false
}

func sortedKeys(m map[value]value) []value {
	keys := make([]value, 0, len(m))
	for k := range m {
		keys = append(keys, k)
	}
	sort.SliceStable(keys, func(i, j int) bool { return keyOrder(keys[i]) < keyOrder(keys[j]) })
	return keys
}

func keyOrder(k value) string {
	switch x := k.(type) {
	case string:
		return "s" + x
	case symstr:
		return fmt.Sprintf("y%p", x.d)
	case *value:
		return fmt.Sprintf("p%p", x)
	case sym:
		return fmt.Sprintf("z%d", x.t.ID)
	}
	if w, signed, u, ok := concInfo(k); ok {
		if signed {
			return fmt.Sprintf("i%020d", uint64(smtSext(u, maxi(w, 1)))+(1<<63))
		}
		return fmt.Sprintf("i%020d", u)
	}
	return toString(k)
}

func maxi(a, b int) int {
	if a > b {
		return a
	}
	return b
}

// findKey locates key in a builtin map, forking on equality with symbolic candidates.
func findKey(m map[value]value, key value, kt types.Type) (value, bool) {
	symKey := keyHasSym(key)
	if !symKey {
		if _, ok := m[key]; ok {
			return key, true
		}
	}
	// compare with each entry that could be equal
	for _, k := range sortedKeys(m) {
		if !symKey && !keyHasSym(k) {
			continue
		}
		r := eqv(kt, key, k)
		if concBool(r) {
			return k, true
		}
	}
	return nil, false
}

func mapHasSymKeys(m map[value]value) bool {
	for k := range m {
		if keyHasSym(k) {
			return true
		}
	}
	return false
}

func lookupSym(fr *frame, instr *ssa.Lookup, x, idx value) value {
	switch m := x.(type) {
	case string, symstr:
		bs, _ := strBytes(x)
		if !isSym(idx) {
			return bs[asInt64(idx)]
		}
		if !inRangeT(idx, 0, int64(len(bs))-1, instr.Index.Type()) {
			panic(symRuntimeError{fmt.Sprintf("index out of range [sym] with length %d", len(bs))})
		}
		return selectElem(bs, idxTermT(idx, instr.Index.Type()), types.Typ[types.Uint8])
	case map[value]value:
		if keyHasSym(idx) || mapHasSymKeys(m) {
			mt := instr.X.Type().Underlying().(*types.Map)
			k, ok := findKey(m, idx, mt.Key())
			var v value
			if ok {
				v = m[k]
			} else {
				v = zero(mt.Elem())
			}
			if instr.CommaOk {
				return tuple{v, ok}
			}
			return v
		}
	}
	return lookup(instr, x, idx)
}

func mapUpdateSym(fr *frame, m map[value]value, key, v value, kt types.Type) {
	if keyHasSym(key) || mapHasSymKeys(m) {
		if k, ok := findKey(m, key, kt); ok {
			m[k] = v
			return
		}
	}
	m[key] = v
}

func mapDeleteSym(m map[value]value, key value, kt types.Type) {
	if keyHasSym(key) || mapHasSymKeys(m) {
		if k, ok := findKey(m, key, kt); ok {
			delete(m, k)
		}
		return
	}
	delete(m, key)
}

// ---- deterministic map iteration ----

type sliceIter struct {
	kv [][2]value
	i  int
}

func (it *sliceIter) next() tuple {
	if it.i >= len(it.kv) {
		return tuple{false, nil, nil}
	}
	e := it.kv[it.i]
	it.i++
	return tuple{true, e[0], e[1]}
}

func newSortedMapIter(m map[value]value) iter {
	it := &sliceIter{}
	for _, k := range sortedKeys(m) {
		it.kv = append(it.kv, [2]value{k, m[k]})
	}
	return it
}

func newSortedHashmapIter(m *hashmap) iter {
	it := &sliceIter{}
	if m == nil {
		return it
	}
	ents := m.entries()
	hs := make([]int, 0, len(ents))
	for h := range ents {
		hs = append(hs, h)
	}
	sort.Ints(hs)
	type kvs struct {
		s string
		e [2]value
	}
	var all []kvs
	for _, h := range hs {
		for e := ents[h]; e != nil; e = e.next {
			all = append(all, kvs{toString(e.key), [2]value{e.key, e.value}})
		}
	}
	sort.SliceStable(all, func(i, j int) bool { return all[i].s < all[j].s })
	for _, a := range all {
		it.kv = append(it.kv, a.e)
	}
	return it
}

func mkBoolVal(t *smt.Term) value {
	if t.IsConst() {
		return t.Val != 0
	}
	return sym{t}
}

// ---- driver API ----

// Machine holds what is shared by all interpreters of one loaded program.
type Machine struct {
	Prog  *ssa.Program
	Cfg   *Config
	Sizes types.Sizes
	proto *interpreter

	ExtraInit []*ssa.Package // packages whose initialisers also run (the model package: nothing imports it)
	baseOnce  sync.Once
	base      map[*ssa.Global]*value // initialised globals of non-acra packages, shared read-only by all paths
	BaseErr   string
}

// buildBase runs the package initialisers once and keeps the globals of every non-acra package
// (std tables, third-party registries). They are treated as immutable after initialisation.
func (m *Machine) buildBase(pkg *ssa.Package) {
	i := m.newInterp(nil)
	defer func() {
		if r := recover(); r != nil {
			m.BaseErr = fmt.Sprintf("init failed: %v", r)
		}
	}()
	i.inInit++
	call(i, nil, token.NoPos, pkg.Func("init"), nil)
	for _, p := range m.ExtraInit {
		call(i, nil, token.NoPos, p.Func("init"), nil)
	}
	base := map[*ssa.Global]*value{}
	for g, cell := range i.globals {
		if g.Pkg == nil {
			continue
		}
		p := g.Pkg.Pkg.Path()
		if strings.HasPrefix(p, "github.com/cossacklabs/") {
			continue
		}
		base[g] = cell
	}
	m.base = base
}

func NewMachine(prog *ssa.Program, cfg *Config) *Machine {
	m := &Machine{Prog: prog, Cfg: cfg, Sizes: &types.StdSizes{WordSize: 8, MaxAlign: 8}}
	i := &interpreter{prog: prog, sizes: m.Sizes}
	runtimePkg := prog.ImportedPackage("runtime")
	if runtimePkg == nil {
		panic("ssa.Program doesn't include runtime package")
	}
	i.runtimeErrorString = runtimePkg.Type("errorString").Object().Type()
	initReflect(i)
	m.proto = i
	return m
}

func (m *Machine) newInterp(ex *Explorer) *interpreter {
	p := m.proto
	i := &interpreter{
		prog: p.prog, globals: make(map[*ssa.Global]*value), sizes: p.sizes, goroutines: 1,
		reflectPackage: p.reflectPackage, errorMethods: p.errorMethods, rtypeMethods: p.rtypeMethods,
		runtimeErrorString: p.runtimeErrorString, ex: ex, cfg: m.Cfg,
	}
	i.osArgs = []value{"verif"}
	for g, c := range m.base {
		i.globals[g] = c
	}
	return i
}

func classifyPanic(r interface{}) (kind, msg string) {
	switch p := r.(type) {
	case targetPanic:
		return "explicit", "panic: " + toString(p.v)
	case symRuntimeError:
		msg = p.Error()
	case error:
		msg = p.Error()
	case string:
		msg = p
	default:
		msg = fmt.Sprintf("%T: %v", r, r)
	}
	switch {
	case strings.Contains(msg, "index out of range"):
		kind = "index"
	case strings.Contains(msg, "slice bounds out of range"):
		kind = "slice"
	case strings.Contains(msg, "nil pointer") || strings.Contains(msg, "nil map") || strings.Contains(msg, "nil interface"):
		kind = "nil"
	case strings.Contains(msg, "divide by zero"):
		kind = "div"
	case strings.Contains(msg, "interface conversion"):
		kind = "typeassert"
	case strings.Contains(msg, "makeslice") || strings.Contains(msg, "negative shift"):
		kind = "make"
	default:
		kind = "other"
	}
	return kind, msg
}

// RunHarness runs pkg's initialisers and then fn once, under ex (nil = concrete).
// A panic escaping fn is re-raised as uncaughtPanic (symbolic) or returned (concrete).
func (m *Machine) RunHarness(ex *Explorer, pkg *ssa.Package, fn *ssa.Function) (panicMsg string) {
	m.baseOnce.Do(func() { m.buildBase(pkg) })
	i := m.newInterp(ex)
	defer func() {
		r := recover()
		if r == nil {
			return
		}
		if isControlPanic(r) {
			panic(r)
		}
		kind, msg := classifyPanic(r)
		site := i.panicSite
		if !i.panicActive || site == "" {
			site = i.panicInner
		}
		if site == "" {
			site = "?"
		}
		if ex != nil {
			panic(uncaughtPanic{kind, site, msg + " [" + i.panicStack + "]"})
		}
		panicMsg = kind + "@" + site + ": " + msg
	}()
	i.inInit++
	call(i, nil, token.NoPos, pkg.Func("init"), nil)
	for _, p := range m.ExtraInit {
		call(i, nil, token.NoPos, p.Func("init"), nil)
	}
	i.inInit--
	i.panicActive = false
	call(i, nil, token.NoPos, fn, nil)
	return ""
}

func isAcraFn(fn *ssa.Function) bool {
	for fn.Parent() != nil {
		fn = fn.Parent()
	}
	if fn.Pkg == nil {
		if o := fn.Origin(); o != nil && o.Pkg != nil {
			fn = o
		} else {
			return false
		}
	}
	p := fn.Pkg.Pkg.Path()
	return strings.HasPrefix(p, "github.com/cossacklabs/acra") && !strings.Contains(p, "/zz_verif") && !strings.HasPrefix(fn.Name(), "Verif") && !strings.HasPrefix(fn.Name(), "verif")
}

func (i *interpreter) globalCell(g *ssa.Global) *value {
	if r, ok := i.globals[g]; ok {
		return r
	}
	cell := zero(mustDeref(g.Type()))
	i.globals[g] = &cell
	return &cell
}


// collectLogBytes records every string / byte slice reachable from a value handed to the logger (message, field
// values, variadic arguments). Values that would need a method call to be rendered (errors, Stringers) are skipped.
func collectLogBytes(e *Explorer, v value, depth int) {
	if depth > 3 {
		return
	}
	switch x := v.(type) {
	case string:
		if len(x) > 0 {
			bs, _ := strBytes(x)
			e.logSink = append(e.logSink, bs)
		}
	case symstr:
		e.logSink = append(e.logSink, append([]value{}, x.bytes()...))
	case iface:
		collectLogBytes(e, x.v, depth+1)
	case []value:
		allBytes := len(x) > 0
		for _, b := range x {
			switch b := b.(type) {
			case byte:
			case sym:
				if b.t.W != 8 {
					allBytes = false
				}
			default:
				allBytes = false
			}
		}
		if allBytes {
			e.logSink = append(e.logSink, append([]value{}, x...))
			return
		}
		for _, el := range x {
			collectLogBytes(e, el, depth+1)
		}
	}
}

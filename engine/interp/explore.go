// Symbolic path exploration: re-execution DFS over decision prefixes.
package interp

import (
	"fmt"
	"golang.org/x/tools/go/ssa"
	"sort"
	"sync"
	"time"

	"verif/engine/smt"
)

// sym is a symbolic integer/bool value: an SMT term of the exact Go width (0 = bool).
type sym struct{ t *smt.Term }

type pathInfeasible struct{}
type pathAbort struct{ reason string } // inconclusive end of path

// Finding is a property violation candidate found on a path.
type Finding struct {
	Kind       string // "panic" | "assert" | "unwind" | "alloc"
	Site       string // function where it occurred, or assert id
	Msg        string
	Model      map[string]uint64
	Decisions  []int
	Harness    string
	Sizes      map[string]int // named byte inputs -> length on this path
	FreshSizes map[string][]int
}

func (f *Finding) Key() string { return f.Kind + "#" + f.Site }

// Shared is the state shared by all workers exploring one harness.
type Shared struct {
	mu            sync.Mutex
	cond          *sync.Cond
	work          [][]int
	active        int
	Paths         int
	PathsOK       int // completed normally
	Infeasible    int
	Aborted       map[string]int // inconclusive paths by reason
	Findings      map[string]*Finding
	FindingCount  map[string]int
	Reach         map[string]int
	Asserts       map[string]int // assert id -> times checked
	AssertUnknown map[string]int
	Samples       []PathSample
	MaxPaths      int
	Deadline      time.Time
	BudgetHit     string
	Decisions     int
	MaxSamples    int
	ForkSites     map[string]int
}

type PathSample struct {
	Decisions  []int             `json:"decisions"`
	Reached    []string          `json:"reached"`
	Model      map[string]uint64 `json:"-"`
	Outcome    string            `json:"outcome"`
	Sizes      map[string]int    `json:"-"`
	FreshSizes map[string][]int  `json:"-"`
	Short      map[string]uint64 `json:"model,omitempty"`
	Full       interface{}       `json:"full_model,omitempty"`
}

func NewShared(maxPaths int, deadline time.Time) *Shared {
	s := &Shared{Aborted: map[string]int{}, Findings: map[string]*Finding{}, FindingCount: map[string]int{}, Reach: map[string]int{},
		Asserts: map[string]int{}, AssertUnknown: map[string]int{}, ForkSites: map[string]int{}, MaxPaths: maxPaths, Deadline: deadline, MaxSamples: 6}
	s.cond = sync.NewCond(&s.mu)
	s.work = [][]int{{}}
	return s
}

// next blocks until a prefix is available or exploration is finished.
func (s *Shared) next() ([]int, bool) {
	s.mu.Lock()
	defer s.mu.Unlock()
	for {
		if s.BudgetHit != "" {
			return nil, false
		}
		if len(s.work) > 0 {
			if s.MaxPaths > 0 && s.Paths >= s.MaxPaths {
				s.BudgetHit = fmt.Sprintf("path budget %d", s.MaxPaths)
				s.cond.Broadcast()
				return nil, false
			}
			if !s.Deadline.IsZero() && time.Now().After(s.Deadline) {
				s.BudgetHit = "time budget"
				s.cond.Broadcast()
				return nil, false
			}
			p := s.work[len(s.work)-1]
			s.work = s.work[:len(s.work)-1]
			s.active++
			s.Paths++
			return p, true
		}
		if s.active == 0 {
			s.cond.Broadcast()
			return nil, false
		}
		s.cond.Wait()
	}
}

func (s *Shared) done() {
	s.mu.Lock()
	s.active--
	s.cond.Broadcast()
	s.mu.Unlock()
}

func (s *Shared) push(p []int) {
	s.mu.Lock()
	s.work = append(s.work, p)
	s.cond.Signal()
	s.mu.Unlock()
}

func (s *Shared) Pending() int { s.mu.Lock(); defer s.mu.Unlock(); return len(s.work) }

// Explorer is the per-worker exploration state.
type Explorer struct {
	Ctx     *smt.Ctx
	Solver  *smt.Solver
	Sh      *Shared
	Harness string

	prefix           []int
	pos              int
	pc               []*smt.Term
	pcSet            map[int]bool
	pcVars           []*smt.Term
	varSeen          map[int]bool
	models           []*cachedModel
	CacheHits        int
	pcRoot           []int
	uf               map[int]int
	termVars         map[int][]*smt.Term
	NoSlicing        bool
	secretVars       map[string]*smt.Term
	decimals         []decRecord
	curFn            *ssa.Function
	AllowTagsInFresh bool
	CaptureLogs      bool      // record the byte strings handed to the logging package (verif.CaptureLogs)
	logSink          [][]value // everything recorded
	logLevel         uint32
	logLevelSet      bool
	FreshASCII       bool // bound: opaque crypto outputs are 7-bit bytes (for code that pushes them through []rune)
	taken            []int
	freshN           int
	reached          []string
	namedVars        map[string]bool
	steps            int
	MaxSteps         int
	hashApps         []hashApp
	opaque           []opaqueEntry
	logs             []string
	sinks            []sinkRec
	secrets          []*smt.Term
	sched            *scheduler
	AllocLimit       int64
	ForkLimit        int
	freshCat         map[string]int
	freshSizes       map[string][]int
	inSizes          map[string]int
	clock            int64
	Funcs            map[string]bool
}

func NewExplorer(sh *Shared, solverKind string, timeout time.Duration, harness string) (*Explorer, error) {
	ctx := smt.NewCtx()
	sol, err := smt.NewSolver(ctx, solverKind, timeout)
	if err != nil {
		return nil, err
	}
	e := &Explorer{Ctx: ctx, Solver: sol, Sh: sh, Harness: harness, MaxSteps: 4000000, AllocLimit: 1 << 20, ForkLimit: 256, Funcs: map[string]bool{}}
	ctx.Owner = e
	return e, nil
}

func exOf(t *smt.Term) *Explorer { return t.C.Owner.(*Explorer) }

func (e *Explorer) startPath(prefix []int) {
	e.prefix = prefix
	e.pos = 0
	e.pc = e.pc[:0]
	e.pcSet = map[int]bool{}
	e.pcVars = e.pcVars[:0]
	e.varSeen = map[int]bool{}
	e.pcRoot = e.pcRoot[:0]
	e.uf = map[int]int{}
	if e.termVars == nil || len(e.termVars) > 200000 {
		e.termVars = map[int][]*smt.Term{}
	}
	for _, m := range e.models {
		m.alive = true
	}
	e.taken = e.taken[:0]
	e.freshN = 0
	e.reached = nil
	e.namedVars = map[string]bool{}
	e.steps = 0
	e.hashApps = nil
	e.opaque = nil
	e.logs = nil
	e.sinks = nil
	e.secrets = nil
	e.secretVars = map[string]*smt.Term{}
	e.sched = nil
	e.freshCat = nil
	e.decimals = nil
	e.AllowTagsInFresh = false
	e.CaptureLogs = false
	e.logSink = nil
	e.logLevelSet = false
	e.FreshASCII = false
	e.freshSizes = map[string][]int{}
	e.inSizes = map[string]int{}
	e.clock = 0
}

func (e *Explorer) replaying() bool { return e.pos < len(e.prefix) }

// cachedModel is a total assignment (absent variables are 0) known to satisfy the current path condition.
type cachedModel struct {
	env   map[string]uint64
	memo  map[int]uint64
	alive bool
}

func (m *cachedModel) holds(t *smt.Term) bool { return smt.Eval(t, m.env, m.memo) != 0 }

const maxCachedModels = 12

func (e *Explorer) addModel(env map[string]uint64) {
	m := &cachedModel{env: env, memo: map[int]uint64{}, alive: true}
	if len(e.models) >= maxCachedModels {
		// drop a dead one if possible, else the oldest
		drop := 0
		for i, x := range e.models {
			if !x.alive {
				drop = i
				break
			}
		}
		e.models = append(e.models[:drop], e.models[drop+1:]...)
	}
	e.models = append(e.models, m)
}

func (e *Explorer) feasible(extra *smt.Term) smt.Result {
	if extra.IsFalse() {
		return smt.Unsat
	}
	for i := len(e.models) - 1; i >= 0; i-- {
		if m := e.models[i]; m.alive && m.holds(extra) {
			e.CacheHits++
			return smt.Sat
		}
	}
	r, _ := e.query(extra)
	return r
}

// query decides pc ∧ extra. With a known full model of pc it only sends the constraints that share
// variables (transitively) with extra; a satisfying partial assignment is merged into the full model.
func (e *Explorer) query(extra *smt.Term) (smt.Result, *cachedModel) {
	// a path that is still issuing queries after the harness deadline ends here as inconclusive (a long path of
	// slow queries must not carry the run far past its budget)
	if e.Sh != nil && !e.Sh.Deadline.IsZero() && time.Now().After(e.Sh.Deadline) {
		e.Sh.mu.Lock()
		if e.Sh.BudgetHit == "" {
			e.Sh.BudgetHit = "time budget"
			e.Sh.cond.Broadcast()
		}
		e.Sh.mu.Unlock()
		panic(pathAbort{"cut at the time budget"})
	}
	var base *cachedModel
	for i := len(e.models) - 1; i >= 0; i-- {
		if e.models[i].alive {
			base = e.models[i]
			break
		}
	}
	xv := e.varsOfTerm(extra)
	var as []*smt.Term
	var vars []*smt.Term
	if base != nil && !e.NoSlicing {
		roots := map[int]bool{}
		for _, v := range xv {
			roots[e.find(v.ID)] = true
		}
		for i, c := range e.pc {
			if r := e.pcRoot[i]; r >= 0 && roots[e.find(r)] {
				as = append(as, c)
			}
		}
		seen := map[int]bool{}
		for _, c := range as {
			for _, v := range e.varsOfTerm(c) {
				if !seen[v.ID] {
					seen[v.ID] = true
					vars = append(vars, v)
				}
			}
		}
		for _, v := range xv {
			if !seen[v.ID] {
				seen[v.ID] = true
				vars = append(vars, v)
			}
		}
	} else {
		as = append(as, e.pc...)
		e.collectVars(extra)
		vars = e.pcVars
	}
	if !extra.IsTrue() {
		as = append(as, extra)
	}
	r, m := e.Solver.Check(as, vars)
	if r != smt.Sat {
		return r, nil
	}
	env := map[string]uint64{}
	if base != nil && !e.NoSlicing {
		for k, v := range base.env {
			env[k] = v
		}
	}
	for _, v := range vars {
		env[v.Name] = m[v.Ref()]
	}
	e.addModel(env)
	return r, e.models[len(e.models)-1]
}

// varsOfTerm returns the variables of t (memoised per term).
func (e *Explorer) varsOfTerm(t *smt.Term) []*smt.Term {
	if vs, ok := e.termVars[t.ID]; ok {
		return vs
	}
	vs := smt.VarsOf([]*smt.Term{t})
	e.termVars[t.ID] = vs
	return vs
}

func (e *Explorer) find(x int) int {
	for {
		p, ok := e.uf[x]
		if !ok || p == x {
			return x
		}
		if gp, ok := e.uf[p]; ok && gp != p {
			e.uf[x] = gp
		}
		x = p
	}
}

func (e *Explorer) union(a, b int) {
	ra, rb := e.find(a), e.find(b)
	if ra != rb {
		e.uf[ra] = rb
	}
}

// notePC records the variable component of the constraint just appended to pc.
func (e *Explorer) notePC(c *smt.Term) {
	vs := e.varsOfTerm(c)
	root := -1
	for _, v := range vs {
		if root < 0 {
			root = v.ID
		} else {
			e.union(root, v.ID)
		}
	}
	e.pcRoot = append(e.pcRoot, root)
}

// pcVarList returns the variables of the path condition plus extra.
func (e *Explorer) pcVarList(extra *smt.Term) []*smt.Term {
	e.collectVars(extra)
	return e.pcVars
}

func (e *Explorer) collectVars(t *smt.Term) {
	stack := []*smt.Term{t}
	for len(stack) > 0 {
		x := stack[len(stack)-1]
		stack = stack[:len(stack)-1]
		if e.varSeen[x.ID] {
			continue
		}
		e.varSeen[x.ID] = true
		if x.Op == smt.OpVar {
			e.pcVars = append(e.pcVars, x)
		}
		stack = append(stack, x.Args...)
	}
}

// Decide picks one of the alternatives. If exhaustive, the disjunction of conds is
// known to be valid under pc, so the last candidate needs no query when all others are infeasible.
func (e *Explorer) Decide(conds []*smt.Term, exhaustive bool) int {
	var choice int
	if e.pos < len(e.prefix) {
		choice = e.prefix[e.pos]
	} else {
		choice = -1
		var alts []int
		for i, c := range conds {
			if c.IsFalse() {
				continue
			}
			var r smt.Result
			if exhaustive && i == len(conds)-1 && choice < 0 {
				r = smt.Sat
			} else {
				r = e.feasible(c)
			}
			if r == smt.Unsat {
				continue
			}
			if choice < 0 {
				choice = i
			} else {
				alts = append(alts, i)
			}
		}
		if choice < 0 {
			panic(pathInfeasible{})
		}
		// push alternatives in reverse so the lowest index is explored first (LIFO)
		for k := len(alts) - 1; k >= 0; k-- {
			alt := make([]int, len(e.taken)+1)
			copy(alt, e.taken)
			alt[len(e.taken)] = alts[k]
			e.Sh.push(alt)
		}
		e.Sh.mu.Lock()
		e.Sh.Decisions++
		if len(alts) > 0 && e.curFn != nil {
			e.Sh.ForkSites[e.curFn.String()] += len(alts)
		}
		e.Sh.mu.Unlock()
	}
	e.pos++
	e.taken = append(e.taken, choice)
	e.addPC(conds[choice])
	return choice
}

// Branch decides a symbolic boolean.
func (e *Explorer) Branch(c *smt.Term) bool {
	if c.IsTrue() {
		return true
	}
	if c.IsFalse() {
		return false
	}
	return e.Decide([]*smt.Term{c, e.Ctx.BNot(c)}, true) == 0
}

// Assume constrains the path.
func (e *Explorer) Assume(c *smt.Term) {
	if c.IsTrue() {
		return
	}
	if c.IsFalse() {
		panic(pathInfeasible{})
	}
	if !e.replaying() {
		if e.feasible(c) == smt.Unsat {
			panic(pathInfeasible{})
		}
	}
	e.addPC(c)
}

// addPC appends a constraint to the path condition (deduplicated; conjunctions are flattened).
func (e *Explorer) addPC(c *smt.Term) {
	if c.IsTrue() || e.pcSet[c.ID] {
		return
	}
	if c.Op == smt.OpBAnd {
		for _, a := range c.Args {
			e.addPC(a)
		}
		return
	}
	e.pcSet[c.ID] = true
	e.pc = append(e.pc, c)
	e.notePC(c)
	e.collectVars(c)
	for _, m := range e.models {
		if m.alive && !m.holds(c) {
			m.alive = false
		}
	}
}

// addPCRaw appends one constraint without flattening it.
func (e *Explorer) addPCRaw(c *smt.Term) {
	if c.IsTrue() || e.pcSet[c.ID] {
		return
	}
	e.pcSet[c.ID] = true
	e.pc = append(e.pc, c)
	e.notePC(c)
	e.collectVars(c)
	for _, m := range e.models {
		if m.alive && !m.holds(c) {
			m.alive = false
		}
	}
}

// AssumeNoCheck adds an axiom-like constraint without a feasibility query
// (used by ideal-function models whose constraints are always satisfiable).
func (e *Explorer) AssumeNoCheck(c *smt.Term) {
	e.addPC(c)
}

func (e *Explorer) model(extra *smt.Term) (smt.Result, map[string]uint64) {
	if extra == nil {
		extra = e.Ctx.True
	}
	for i := len(e.models) - 1; i >= 0; i-- {
		if m := e.models[i]; m.alive && m.holds(extra) {
			return smt.Sat, copyEnv(m.env)
		}
	}
	r, cm := e.query(extra)
	if r != smt.Sat {
		return r, nil
	}
	return r, copyEnv(cm.env)
}

func copyEnv(env map[string]uint64) map[string]uint64 {
	out := make(map[string]uint64, len(env))
	for k, v := range env {
		out[k] = v
	}
	return out
}

// Assert checks a property obligation; a violation is recorded with a model and the path continues under the assertion.
func (e *Explorer) Assert(c *smt.Term, id string) {
	if e.replaying() {
		e.AssumeNoCheck(c)
		return
	}
	e.Sh.mu.Lock()
	e.Sh.Asserts[id]++
	e.Sh.mu.Unlock()
	if c.IsTrue() {
		return
	}
	bad := e.Ctx.BNot(c)
	r, m := e.model(bad)
	switch r {
	case smt.Sat:
		e.record(&Finding{Kind: "assert", Site: id, Msg: "assertion " + id + " can fail", Model: m})
	case smt.Unknown:
		e.Sh.mu.Lock()
		e.Sh.AssertUnknown[id]++
		e.Sh.mu.Unlock()
	}
	if c.IsFalse() {
		panic(pathInfeasible{})
	}
	if e.feasible(c) == smt.Unsat {
		panic(pathInfeasible{})
	}
	e.addPC(c)
}

func (e *Explorer) record(f *Finding) {
	f.Decisions = append([]int{}, e.taken...)
	f.Harness = e.Harness
	f.Sizes = map[string]int{}
	for k, v := range e.inSizes {
		f.Sizes[k] = v
	}
	f.FreshSizes = map[string][]int{}
	for k, v := range e.freshSizes {
		f.FreshSizes[k] = append([]int{}, v...)
	}
	e.Sh.mu.Lock()
	defer e.Sh.mu.Unlock()
	e.Sh.FindingCount[f.Key()]++
	if _, ok := e.Sh.Findings[f.Key()]; !ok {
		e.Sh.Findings[f.Key()] = f
	}
}

func (e *Explorer) Reach(label string) {
	e.reached = append(e.reached, label)
	if e.replaying() {
		return
	}
	e.Sh.mu.Lock()
	e.Sh.Reach[label]++
	e.Sh.mu.Unlock()
}

// Fresh returns n fresh symbolic bytes (model-internal symbols: ciphertexts, hashes, randomness).
func (e *Explorer) Fresh(n int) []value {
	out := make([]value, n)
	k := e.freshN
	e.freshN++
	for i := range out {
		out[i] = sym{e.Ctx.Var(fmt.Sprintf("fr_%d_%d", k, i), 8)}
	}
	return out
}

func (e *Explorer) FreshInt(w int) *smt.Term {
	k := e.freshN
	e.freshN++
	return e.Ctx.Var(fmt.Sprintf("fv_%d_w%d", k, w), w)
}

func (e *Explorer) NamedBytes(name string, n int) []value {
	e.inSizes[name] = n
	out := make([]value, n)
	for i := range out {
		out[i] = sym{e.Ctx.Var(fmt.Sprintf("in_%s_%d", name, i), 8)}
	}
	return out
}

func (e *Explorer) NamedInt(name string, w int) *smt.Term {
	return e.Ctx.Var(fmt.Sprintf("iv_%s_w%d", name, w), w)
}

// RunPath executes fn once under the given decision prefix.
func (e *Explorer) RunPath(prefix []int, run func()) {
	e.startPath(prefix)
	outcome := "ok"
	func() {
		defer func() {
			r := recover()
			if r == nil {
				return
			}
			switch p := r.(type) {
			case pathInfeasible:
				outcome = "infeasible"
			case pathAbort:
				outcome = "abort:" + p.reason
			case smt.SolverDied:
				outcome = "abort:solver died: " + p.Msg
			case uncaughtPanic:
				outcome = "panic"
				if e.replaying() {
					// the panic happened before the decisions of the prefix were consumed: already reported by the parent path
					return
				}
				res, m := e.model(nil)
				if res == smt.Sat {
					e.record(&Finding{Kind: p.kind, Site: p.site, Msg: p.msg, Model: m})
				} else {
					outcome = "abort:panic path model " + res.String()
				}
			default:
				panic(r)
			}
		}()
		run()
	}()
	e.Sh.mu.Lock()
	switch {
	case outcome == "ok" || outcome == "panic":
		e.Sh.PathsOK++
	case outcome == "infeasible":
		e.Sh.Infeasible++
	default:
		e.Sh.Aborted[outcome]++
	}
	want := len(e.Sh.Samples) < e.Sh.MaxSamples && outcome != "infeasible"
	e.Sh.mu.Unlock()
	if want {
		ps := PathSample{Decisions: append([]int{}, e.taken...), Reached: e.reached, Outcome: outcome}
		if len(ps.Decisions) > 40 {
			ps.Decisions = ps.Decisions[:40]
		}
		if r, m := e.model(nil); r == smt.Sat {
			ps.Model = m
			ps.Short = m
			if len(m) > 32 {
				mm := map[string]uint64{}
				keys := make([]string, 0, len(m))
				for k := range m {
					keys = append(keys, k)
				}
				sort.Strings(keys)
				for _, k := range keys[:32] {
					mm[k] = m[k]
				}
				ps.Short = mm
			}
			ps.Sizes = map[string]int{}
			for k, v := range e.inSizes {
				ps.Sizes[k] = v
			}
			ps.FreshSizes = map[string][]int{}
			for k, v := range e.freshSizes {
				ps.FreshSizes[k] = append([]int{}, v...)
			}
		}
		e.Sh.mu.Lock()
		if len(e.Sh.Samples) < e.Sh.MaxSamples {
			e.Sh.Samples = append(e.Sh.Samples, ps)
		}
		e.Sh.mu.Unlock()
	}
}

// uncaughtPanic is raised at the harness boundary when the interpreted program panics.
type uncaughtPanic struct{ kind, site, msg string }

// Worker loop.
func (e *Explorer) Loop(run func()) {
	for {
		p, ok := e.Sh.next()
		if !ok {
			return
		}
		e.RunPath(p, run)
		e.Sh.done()
	}
}

// Fatal stops the exploration (engine failure).
func (s *Shared) Fatal(msg string) {
	s.mu.Lock()
	s.BudgetHit = "fatal: " + msg
	s.cond.Broadcast()
	s.mu.Unlock()
}

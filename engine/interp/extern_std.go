package interp

import (
	"fmt"
	"go/types"

	"golang.org/x/tools/go/ssa"
	"verif/engine/smt"
)

type coYield struct{}

// goStmt: goroutines are not run concurrently by the engine. Without a scheduler a `go` statement
// ends the path as inconclusive, except inside package initialisers where it is skipped.
func goStmt(fr *frame, instr *ssa.Go, fn value, args []value) {
	if fr.i.inInit > 0 {
		return
	}
	if fr.i.ex != nil && fr.i.ex.sched != nil {
		fr.i.ex.sched.spawn(fr, fn, args)
		return
	}
	panic(pathAbort{"go statement in " + fr.fn.String()})
}

type scheduler struct{}

func (s *scheduler) spawn(fr *frame, fn value, args []value) {
	panic(pathAbort{"scheduler not implemented"})
}

func init() {
	nop := func(fr *frame, args []value) value { return nil }
	externals["(*sync.Pool).Get"] = func(fr *frame, args []value) value {
		p := (*args[0].(*value)).(structure)
		newf := p[len(p)-1]
		if newf == nil {
			return iface{}
		}
		if f, ok := newf.(*ssa.Function); ok && f == nil {
			return iface{}
		}
		return call(fr.i, fr, 0, newf, nil)
	}
	externals["(*sync.Pool).Put"] = nop
	for _, m := range []string{"(*sync.Mutex).Lock", "(*sync.Mutex).Unlock", "(*sync.RWMutex).Lock", "(*sync.RWMutex).Unlock",
		"(*sync.RWMutex).RLock", "(*sync.RWMutex).RUnlock", "(*sync.WaitGroup).Add", "(*sync.WaitGroup).Done", "(*sync.WaitGroup).Wait"} {
		externals[m] = nop
	}
	externals["(*sync.Mutex).TryLock"] = func(fr *frame, args []value) value { return true }
	externals["(*sync.Once).Do"] = func(fr *frame, args []value) value {
		o := args[0].(*value)
		st := (*o).(structure)
		// field 0 is `done atomic.Uint32` (struct{_ noCopy; v uint32}) in go1.23; mark via its last scalar
		if onceDone(st) {
			return nil
		}
		setOnceDone(st)
		call(fr.i, fr, 0, args[1], nil)
		return nil
	}
	externals["runtime.SetFinalizer"] = nop
	externals["runtime.KeepAlive"] = nop
	externals["runtime.Gosched"] = nop
	externals["runtime.GC"] = nop
	externals["time.now"] = func(fr *frame, args []value) value {
		if ex := fr.i.ex; ex != nil {
			ex.clock++
			return tuple{int64(1700000000 + ex.clock), int32(0), int64(1000000000 * ex.clock)}
		}
		return tuple{int64(1700000000), int32(0), int64(1)}
	}
	externals["time.runtimeNano"] = func(fr *frame, args []value) value {
		if ex := fr.i.ex; ex != nil {
			ex.clock++
			return int64(1000000000 * ex.clock)
		}
		return int64(1)
	}
	externals["time.Sleep"] = nop
	externals["internal/bytealg.MakeNoZero"] = func(fr *frame, args []value) value {
		n := allocSize(fr, args[0], "makeslice: len out of range")
		b := make([]value, n)
		for i := range b {
			b[i] = uint8(0)
		}
		return b
	}
	externals["os.Getenv"] = func(fr *frame, args []value) value { return "" }
	externals["os.LookupEnv"] = func(fr *frame, args []value) value { return tuple{"", false} }
	externals["os.Getpid"] = func(fr *frame, args []value) value { return 4242 }
	externals["os.Hostname"] = func(fr *frame, args []value) value { return tuple{"host", iface{}} }

	// atomics (sequential semantics)
	load := func(fr *frame, args []value) value { return *args[0].(*value) }
	store := func(fr *frame, args []value) value { *args[0].(*value) = args[1]; return nil }
	swap := func(fr *frame, args []value) value { p := args[0].(*value); old := *p; *p = args[1]; return old }
	cas := func(fr *frame, args []value) value {
		p := args[0].(*value)
		if *p == args[1] {
			*p = args[2]
			return true
		}
		return false
	}
	for _, t := range []string{"Int32", "Int64", "Uint32", "Uint64", "Uintptr", "Pointer"} {
		externals["sync/atomic.Load"+t] = load
		externals["sync/atomic.Store"+t] = store
		externals["sync/atomic.Swap"+t] = swap
		externals["sync/atomic.CompareAndSwap"+t] = cas
	}
	externals["sync/atomic.AddInt32"] = func(fr *frame, args []value) value {
		p := args[0].(*value)
		*p = (*p).(int32) + args[1].(int32)
		return *p
	}
	externals["sync/atomic.AddInt64"] = func(fr *frame, args []value) value {
		p := args[0].(*value)
		*p = (*p).(int64) + args[1].(int64)
		return *p
	}
	externals["sync/atomic.AddUint32"] = func(fr *frame, args []value) value {
		p := args[0].(*value)
		*p = (*p).(uint32) + args[1].(uint32)
		return *p
	}
	externals["sync/atomic.AddUint64"] = func(fr *frame, args []value) value {
		p := args[0].(*value)
		*p = (*p).(uint64) + args[1].(uint64)
		return *p
	}
	externals["sync/atomic.AddUintptr"] = func(fr *frame, args []value) value {
		p := args[0].(*value)
		*p = (*p).(uintptr) + args[1].(uintptr)
		return *p
	}

	// internal/bytealg (assembly in the real runtime)
	externals["internal/bytealg.IndexByte"] = func(fr *frame, args []value) value {
		return indexByteVal(args[0].([]value), args[1])
	}
	externals["internal/bytealg.IndexByteString"] = func(fr *frame, args []value) value {
		bs, _ := strBytes(args[0])
		return indexByteVal(bs, args[1])
	}
	externals["internal/bytealg.Count"] = func(fr *frame, args []value) value {
		return countByteVal(args[0].([]value), args[1])
	}
	externals["internal/bytealg.CountString"] = func(fr *frame, args []value) value {
		bs, _ := strBytes(args[0])
		return countByteVal(bs, args[1])
	}
	externals["internal/bytealg.Equal"] = func(fr *frame, args []value) value {
		a, b := args[0].([]value), args[1].([]value)
		c := deepCtx(array(a), array(b))
		if c == nil {
			return mkBoolVal(bytesEqTerm(smt.NewCtx(), a, b))
		}
		return mkBoolVal(bytesEqTerm(c, a, b))
	}
	externals["internal/bytealg.Compare"] = func(fr *frame, args []value) value {
		return compareVal(args[0].([]value), args[1].([]value))
	}
	externals["internal/bytealg.Index"] = func(fr *frame, args []value) value {
		return indexVal(args[0].([]value), args[1].([]value))
	}
	externals["internal/bytealg.IndexString"] = func(fr *frame, args []value) value {
		a, _ := strBytes(args[0])
		b, _ := strBytes(args[1])
		return indexVal(a, b)
	}
	idxBytes := func(fr *frame, args []value) value { return indexVal(args[0].([]value), args[1].([]value)) }
	idxStr := func(fr *frame, args []value) value {
		a, _ := strBytes(args[0])
		b, _ := strBytes(args[1])
		return indexVal(a, b)
	}
	lastIdxStr := func(fr *frame, args []value) value {
		a, _ := strBytes(args[0])
		b, _ := strBytes(args[1])
		return lastIndexVal(a, b)
	}
	// std uses Rabin-Karp hashing (32-bit multiplications) for these: replaced by a window comparison
	externals["bytes.Index"] = idxBytes
	externals["strings.Index"] = idxStr
	externals["internal/stringslite.Index"] = idxStr
	externals["internal/bytealg.IndexRabinKarp[[]byte]"] = idxBytes
	externals["internal/bytealg.IndexRabinKarp[string]"] = idxStr
	externals["strings.LastIndex"] = lastIdxStr
	externals["bytes.LastIndex"] = func(fr *frame, args []value) value { return lastIndexVal(args[0].([]value), args[1].([]value)) }
	externals["internal/bytealg.LastIndexRabinKarp[[]byte]"] = externals["bytes.LastIndex"]
	externals["internal/bytealg.LastIndexRabinKarp[string]"] = lastIdxStr
	externals["internal/bytealg.LastIndexByte"] = func(fr *frame, args []value) value {
		return lastIndexByteVal(args[0].([]value), args[1])
	}
	externals["internal/bytealg.LastIndexByteString"] = func(fr *frame, args []value) value {
		bs, _ := strBytes(args[0])
		return lastIndexByteVal(bs, args[1])
	}
}

func onceDone(st structure) bool {
	switch d := st[0].(type) {
	case structure: // atomic.Uint32{_ noCopy, v uint32}
		return d[len(d)-1].(uint32) != 0
	case uint32:
		return d != 0
	}
	panic(fmt.Sprintf("sync.Once layout: %T", st[0]))
}

func setOnceDone(st structure) {
	switch d := st[0].(type) {
	case structure:
		d[len(d)-1] = uint32(1)
	case uint32:
		st[0] = uint32(1)
	}
}

var tInt = types.Typ[types.Int]

func indexByteVal(b []value, cv value) value {
	c := deepCtx(array(b), cv)
	if c == nil {
		for i := range b {
			if b[i] == cv {
				return i
			}
		}
		return -1
	}
	ct := termOf(c, cv)
	r := c.Const(^uint64(0), 64)
	for i := len(b) - 1; i >= 0; i-- {
		r = c.Ite(c.Eq(termOf(c, b[i]), ct), c.Const(uint64(i), 64), r)
	}
	return mkVal(tInt, r)
}

func lastIndexByteVal(b []value, cv value) value {
	c := deepCtx(array(b), cv)
	if c == nil {
		for i := len(b) - 1; i >= 0; i-- {
			if b[i] == cv {
				return i
			}
		}
		return -1
	}
	ct := termOf(c, cv)
	r := c.Const(^uint64(0), 64)
	for i := 0; i < len(b); i++ {
		r = c.Ite(c.Eq(termOf(c, b[i]), ct), c.Const(uint64(i), 64), r)
	}
	return mkVal(tInt, r)
}

func countByteVal(b []value, cv value) value {
	c := deepCtx(array(b), cv)
	if c == nil {
		n := 0
		for i := range b {
			if b[i] == cv {
				n++
			}
		}
		return n
	}
	ct := termOf(c, cv)
	r := c.Const(0, 64)
	for i := range b {
		r = c.Bin(smt.OpAdd, r, c.Ite(c.Eq(termOf(c, b[i]), ct), c.Const(1, 64), c.Const(0, 64)))
	}
	return mkVal(tInt, r)
}

func compareVal(a, b []value) value {
	c := deepCtx(array(a), array(b))
	if c == nil {
		c = smt.NewCtx()
	}
	n := len(a)
	if len(b) < n {
		n = len(b)
	}
	var r *smt.Term
	switch {
	case len(a) < len(b):
		r = c.Const(^uint64(0), 64)
	case len(a) > len(b):
		r = c.Const(1, 64)
	default:
		r = c.Const(0, 64)
	}
	for i := n - 1; i >= 0; i-- {
		ta, tb := termOf(c, a[i]), termOf(c, b[i])
		r = c.Ite(c.Eq(ta, tb), r, c.Ite(c.Cmp(smt.OpULt, ta, tb), c.Const(^uint64(0), 64), c.Const(1, 64)))
	}
	return mkVal(tInt, r)
}

func indexVal(a, b []value) value {
	c := deepCtx(array(a), array(b))
	if c == nil {
		c = smt.NewCtx()
	}
	r := c.Const(^uint64(0), 64)
	for i := len(a) - len(b); i >= 0; i-- {
		r = c.Ite(bytesEqTerm(c, a[i:i+len(b)], b), c.Const(uint64(i), 64), r)
	}
	return mkVal(tInt, r)
}

func lastIndexVal(a, b []value) value {
	c := deepCtx(array(a), array(b))
	if c == nil {
		c = smt.NewCtx()
	}
	r := c.Const(^uint64(0), 64)
	for i := 0; i+len(b) <= len(a); i++ {
		r = c.Ite(bytesEqTerm(c, a[i:i+len(b)], b), c.Const(uint64(i), 64), r)
	}
	return mkVal(tInt, r)
}

// ---- math/rand over an arbitrary Source: the rejection-sampling loops are cut by assuming the first sample is accepted ----

func randMethod(fr *frame, recv value, name string) value {
	rt := fr.i.prog.ImportedPackage("math/rand").Type("Rand").Type()
	ptr := types.NewPointer(rt)
	sel := fr.i.prog.MethodSets.MethodSet(ptr).Lookup(fr.i.prog.ImportedPackage("math/rand").Pkg, name)
	fn := fr.i.prog.MethodValue(sel)
	return call(fr.i, fr, 0, fn, []value{recv})
}

func init() {
	externals["(*crypto/rand.reader).Read"] = func(fr *frame, args []value) value {
		b := args[1].([]value)
		if fr.i.ex == nil {
			for i := range b {
				b[i] = uint8(0x41 + i%7)
			}
		} else {
			copy(b, fr.i.ex.FreshCat("rnd", len(b)))
		}
		return tuple{len(b), iface{}}
	}
	int31n := func(fr *frame, recv value, nv value) value {
		n := asInt64(nv)
		if n <= 0 {
			panic(targetPanic{iface{types.Typ[types.String], "invalid argument to Int31n"}})
		}
		v := randMethod(fr, recv, "Int31")
		if n&(n-1) == 0 {
			if s, ok := v.(sym); ok {
				return mkVal(types.Typ[types.Int32], s.t.C.Bin(smt.OpAnd, s.t, s.t.C.Const(uint64(n-1), 32)))
			}
			return v.(int32) & int32(n-1)
		}
		max := int32((1 << 31) - 1 - (1<<31)%uint32(n))
		if s, ok := v.(sym); ok {
			c := s.t.C
			exOf(s.t).Assume(c.Cmp(smt.OpSLe, s.t, c.Const(uint64(uint32(max)), 32)))
			return mkVal(types.Typ[types.Int32], c.Bin(smt.OpSRem, s.t, c.Const(uint64(n), 32)))
		}
		return v.(int32) % int32(n)
	}
	int63n := func(fr *frame, recv value, nv value) value {
		n := asInt64(nv)
		if n <= 0 {
			panic(targetPanic{iface{types.Typ[types.String], "invalid argument to Int63n"}})
		}
		v := randMethod(fr, recv, "Int63")
		max := int64((1 << 63) - 1 - (1<<63)%uint64(n))
		if s, ok := v.(sym); ok {
			c := s.t.C
			exOf(s.t).Assume(c.Cmp(smt.OpSLe, s.t, c.Const(uint64(max), 64)))
			return mkVal(types.Typ[types.Int64], c.Bin(smt.OpSRem, s.t, c.Const(uint64(n), 64)))
		}
		return v.(int64) % n
	}
	externals["(*math/rand.Rand).Int31n"] = func(fr *frame, args []value) value { return int31n(fr, args[0], args[1]) }
	externals["(*math/rand.Rand).Int63n"] = func(fr *frame, args []value) value { return int63n(fr, args[0], args[1]) }
	externals["(*math/rand.Rand).Intn"] = func(fr *frame, args []value) value {
		n := asInt64(args[1])
		if n <= 0 {
			panic(targetPanic{iface{types.Typ[types.String], "invalid argument to Intn"}})
		}
		if n <= 1<<31-1 {
			return convSym(types.Typ[types.Int], types.Typ[types.Int32], int31n(fr, args[0], int32(n)))
		}
		return convSym(types.Typ[types.Int], types.Typ[types.Int64], int63n(fr, args[0], n))
	}
}

func init() {
	// Grow is a capacity hint: with a symbolic size only its failure modes matter
	externals["(*bytes.Buffer).Grow"] = func(fr *frame, args []value) value {
		s, ok := args[1].(sym)
		if !ok {
			return notHandled
		}
		e := exOf(s.t)
		c := s.t.C
		if e.Branch(c.Cmp(smt.OpSLt, s.t, c.Const(0, 64))) {
			panic(targetPanic{iface{types.Typ[types.String], "bytes.Buffer.Grow: negative count"}})
		}
		if e.Branch(c.Cmp(smt.OpSLt, c.Const(uint64(e.AllocLimit), 64), s.t)) {
			panic(uncaughtPanic{"alloc", fr.caller.fn.String(), fmt.Sprintf("bytes.Buffer.Grow size controlled by input can exceed %d bytes", e.AllocLimit)})
		}
		return nil
	}
}

// callBody interprets fn's own body (bypassing its external).
func callBody(fr *frame, fn *ssa.Function, args []value) value {
	nf := &frame{i: fr.i, caller: fr.caller, fn: fn}
	return runSSA(nf, fn, args, nil)
}

func init() {
	// io.CopyN(dst, src, n) with a symbolic n and a *bytes.Reader source: every n beyond what the reader holds
	// behaves alike (all remaining bytes are copied, io.EOF is returned), so one representative is explored.
	externals["io.CopyN"] = func(fr *frame, args []value) value {
		s, ok := args[2].(sym)
		if !ok {
			return notHandled
		}
		src, ok := args[1].(iface)
		if !ok || src.t == nil || src.t.String() != "*bytes.Reader" {
			return notHandled
		}
		rd := (*src.v.(*value)).(structure) // bytes.Reader{s []byte, i int64, prevRune int}
		remaining := int64(len(rd[0].([]value))) - rd[1].(int64)
		if remaining < 0 {
			remaining = 0
		}
		e := exOf(s.t)
		c := s.t.C
		fn := fr.fn
		var n int64
		if e.Branch(c.Cmp(smt.OpSLt, c.Const(uint64(remaining), 64), s.t)) {
			n = remaining + 1
		} else if e.Branch(c.Cmp(smt.OpSLt, s.t, c.Const(0, 64))) {
			n = -1
		} else {
			n = e.ForkValue(s.t, true, "io.CopyN")
		}
		return callBody(fr, fn, []value{args[0], args[1], n})
	}
}

func init() {
	// acra's sqlparser/dependency/hack casts through reflect.SliceHeader; same meaning without the cast
	const hack = "github.com/cossacklabs/acra/sqlparser/dependency/hack."
	externals[hack+"String"] = func(fr *frame, args []value) value { return mkSymstr(args[0].([]value)) }
}

func init() {
	externals["internal/abi.NoEscape"] = func(fr *frame, args []value) value { return args[0] }
	externals["internal/abi.Escape[*strings.Builder]"] = func(fr *frame, args []value) value { return args[0] }
}

func init() {
	// sort.Slice uses reflectlite; same contract by insertion sort over the interpreter's slice
	sortSlice := func(fr *frame, args []value) value {
		x, ok := args[0].(iface)
		if !ok {
			return notHandled
		}
		s, ok := x.v.([]value)
		if !ok {
			panic(pathAbort{"sort.Slice on a non-slice"})
		}
		less := args[1]
		for i := 1; i < len(s); i++ {
			for j := i; j > 0; j-- {
				r := call(fr.i, fr, 0, less, []value{j, j - 1})
				if !concBool(r) {
					break
				}
				s[j], s[j-1] = s[j-1], s[j]
			}
		}
		return nil
	}
	externals["sort.Slice"] = sortSlice
	externals["sort.SliceStable"] = sortSlice
}

// ---- ASCII case mapping without forking ----

func init() {
	mk := func(upper, str bool) func(fr *frame, args []value) value {
		return func(fr *frame, args []value) value {
			bs, _ := strBytes(args[0])
			if !str {
				bs, _ = args[0].([]value)
			}
			hasSym := false
			for _, b := range bs {
				if _, ok := b.(sym); ok {
					hasSym = true
					break
				}
			}
			if !hasSym || fr.i.ex == nil {
				return notHandled
			}
			out := make([]value, len(bs))
			for i, b := range bs {
				switch b := b.(type) {
				case byte:
					if b >= 0x80 {
						return notHandled // leave UTF-8 to the interpreted code
					}
					out[i] = asciiCase(b, upper)
				case sym:
					t, ok := caseMapTerm(fr.i.ex, b.t, upper)
					if !ok {
						return notHandled
					}
					out[i] = mkVal(types.Typ[types.Uint8], t)
				}
			}
			if str {
				return mkSymstr(out)
			}
			return out
		}
	}
	externals["bytes.ToUpper"] = mk(true, false)
	externals["bytes.ToLower"] = mk(false, false)
	externals["strings.ToUpper"] = mk(true, true)
	externals["strings.ToLower"] = mk(false, true)
}

func asciiCase(b byte, upper bool) byte {
	if upper && 'a' <= b && b <= 'z' {
		return b - 32
	}
	if !upper && 'A' <= b && b <= 'Z' {
		return b + 32
	}
	return b
}

// caseMapTerm maps one symbolic byte; it is exact only for 7-bit bytes, so the byte must provably be below 0x80.
func caseMapTerm(e *Explorer, t *smt.Term, upper bool) (*smt.Term, bool) {
	c := e.Ctx
	if tb, ok := c.AsTable(t); ok {
		// a constant table lookup stays one: map the entries
		for _, v := range append(append([]uint64{}, tb.Vals...), tb.Def) {
			if v >= 0x80 {
				return nil, false
			}
		}
		r := c.Const(uint64(asciiCase(byte(tb.Def), upper)), 8)
		for i := len(tb.Keys) - 1; i >= 0; i-- {
			r = c.Ite(c.Eq(tb.X, c.Const(tb.Keys[i], tb.X.W)), c.Const(uint64(asciiCase(byte(tb.Vals[i]), upper)), 8), r)
		}
		return r, true
	}
	if e.feasible(c.Cmp(smt.OpULe, c.Const(0x80, 8), t)) != smt.Unsat {
		return nil, false
	}
	lo, hi, d := byte('a'), byte('z'), c.Bin(smt.OpSub, t, c.Const(32, 8))
	if !upper {
		lo, hi, d = 'A', 'Z', c.Bin(smt.OpAdd, t, c.Const(32, 8))
	}
	in := c.BAnd(c.Cmp(smt.OpULe, c.Const(uint64(lo), 8), t), c.Cmp(smt.OpULe, t, c.Const(uint64(hi), 8)))
	return c.Ite(in, d, t), true
}

// ---- unicode/utf8.Valid / ValidString as one boolean term (the std loop forks on every symbolic byte) ----

func init() {
	externals["unicode/utf8.Valid"] = func(fr *frame, args []value) value {
		bs, _ := args[0].([]value)
		return utf8ValidVal(fr, bs)
	}
	externals["unicode/utf8.ValidString"] = func(fr *frame, args []value) value {
		bs, _ := strBytes(args[0])
		return utf8ValidVal(fr, bs)
	}
}

// utf8Next is the validation automaton of unicode/utf8: 0 start, 1 one continuation byte to go, 2 two to go,
// 3/4 second byte after E0/ED, 5 three to go, 6/7 second byte after F0/F4, 8 invalid.
func utf8Next(st int, b byte) int {
	in := func(lo, hi byte) bool { return lo <= b && b <= hi }
	switch st {
	case 0:
		switch {
		case b < 0x80:
			return 0
		case b < 0xC2:
			return 8
		case b < 0xE0:
			return 1
		case b == 0xE0:
			return 3
		case b == 0xED:
			return 4
		case b < 0xF0:
			return 2
		case b == 0xF0:
			return 6
		case b < 0xF4:
			return 5
		case b == 0xF4:
			return 7
		}
		return 8
	case 1:
		if in(0x80, 0xBF) {
			return 0
		}
	case 2:
		if in(0x80, 0xBF) {
			return 1
		}
	case 3:
		if in(0xA0, 0xBF) {
			return 1
		}
	case 4:
		if in(0x80, 0x9F) {
			return 1
		}
	case 5:
		if in(0x80, 0xBF) {
			return 2
		}
	case 6:
		if in(0x90, 0xBF) {
			return 2
		}
	case 7:
		if in(0x80, 0x8F) {
			return 2
		}
	}
	return 8
}

func utf8ValidVal(fr *frame, bs []value) value {
	hasSym := false
	for _, b := range bs {
		if _, ok := b.(sym); ok {
			hasSym = true
			break
		}
	}
	if !hasSym || fr.i.ex == nil {
		return notHandled
	}
	c := fr.i.ex.Ctx
	// per state, the successor as a term over a symbolic byte: a chain over the maximal runs of equal successors
	succ := func(st int, b *smt.Term) *smt.Term {
		r := c.Const(uint64(utf8Next(st, 0xff)), 8)
		for hi := 0xfe; hi >= 0; hi-- {
			if utf8Next(st, byte(hi)) != utf8Next(st, byte(hi+1)) {
				r = c.Ite(c.Cmp(smt.OpULe, b, c.Const(uint64(hi), 8)), c.Const(uint64(utf8Next(st, byte(hi))), 8), r)
			}
		}
		return r
	}
	var st value = 0 // int while concrete, *smt.Term (8 bit) once symbolic
	for _, b := range bs {
		switch s := st.(type) {
		case int:
			if cb, ok := b.(byte); ok {
				st = utf8Next(s, cb)
			} else {
				st = succ(s, b.(sym).t)
			}
		case *smt.Term:
			var r *smt.Term
			for k := 8; k >= 0; k-- {
				var nk *smt.Term
				if cb, ok := b.(byte); ok {
					nk = c.Const(uint64(utf8Next(k, cb)), 8)
				} else {
					nk = succ(k, b.(sym).t)
				}
				if r == nil {
					r = nk
				} else {
					r = c.Ite(c.Eq(s, c.Const(uint64(k), 8)), nk, r)
				}
			}
			st = r
		}
		if s, ok := st.(*smt.Term); ok && s.IsConst() {
			st = int(s.Val)
		}
	}
	switch s := st.(type) {
	case int:
		return s == 0
	case *smt.Term:
		return mkBoolVal(c.Eq(s, c.Const(0, 8)))
	}
	return notHandled
}

// ---- logrus level: the only state of the (otherwise no-op) logging package that acra's code branches on ----

func init() {
	externals["github.com/sirupsen/logrus.SetLevel"] = func(fr *frame, args []value) value {
		if fr.i.ex != nil {
			fr.i.ex.logLevel = uint32(asUint64(args[0]))
			fr.i.ex.logLevelSet = true
		}
		return nil
	}
	externals["github.com/sirupsen/logrus.GetLevel"] = func(fr *frame, args []value) value {
		if fr.i.ex != nil && fr.i.ex.logLevelSet {
			return fr.i.ex.logLevel
		}
		return uint32(4) // logrus.InfoLevel, the library default
	}
}

package interp

import (
	"go/types"

	"verif/engine/smt"
)

// deepEqTerm is structural equality over interpreter values (the engine's reflect.DeepEqual):
// concrete structure is compared directly, symbolic scalars and strings contribute equality terms.
func deepEqTerm(c *smt.Ctx, x, y value, depth int) *smt.Term {
	if depth > 400 {
		return c.True
	}
	switch xv := x.(type) {
	case nil:
		return c.Bool(y == nil)
	case sym:
		if _, _, _, ok := concInfo(y); ok || isSym(y) {
			return c.Eq(xv.t, termOf(c, y))
		}
		return c.False
	case string, symstr:
		ys, ok := strBytes(y)
		if !ok {
			return c.False
		}
		xs, _ := strBytes(x)
		return bytesEqTerm(c, xs, ys)
	case *value:
		yp, ok := y.(*value)
		if !ok {
			return c.False
		}
		if xv == nil || yp == nil {
			return c.Bool(xv == yp)
		}
		if xv == yp {
			return c.True
		}
		return deepEqTerm(c, *xv, *yp, depth+1)
	case []value:
		ys, ok := y.([]value)
		if !ok || len(xv) != len(ys) || (xv == nil) != (ys == nil) {
			return c.False
		}
		return deepEqList(c, xv, ys, depth)
	case structure:
		ys, ok := y.(structure)
		if !ok || len(xv) != len(ys) {
			return c.False
		}
		return deepEqList(c, xv, ys, depth)
	case array:
		ys, ok := y.(array)
		if !ok || len(xv) != len(ys) {
			return c.False
		}
		return deepEqList(c, xv, ys, depth)
	case iface:
		yi, ok := y.(iface)
		if !ok {
			return c.False
		}
		if xv.t == nil || yi.t == nil {
			return c.Bool(xv.t == nil && yi.t == nil)
		}
		if !types.Identical(xv.t, yi.t) {
			return c.False
		}
		return deepEqTerm(c, xv.v, yi.v, depth+1)
	case map[value]value:
		ym, ok := y.(map[value]value)
		if !ok || len(xv) != len(ym) {
			return c.False
		}
		var cs []*smt.Term
		for k, v := range xv {
			w, ok := ym[k]
			if !ok {
				return c.False
			}
			cs = append(cs, deepEqTerm(c, v, w, depth+1))
		}
		return c.BAnd(cs...)
	case tuple:
		return c.False
	}
	if isSym(y) {
		return c.Eq(termOf(c, x), termOf(c, y))
	}
	eq := false
	func() {
		defer func() { recover() }()
		eq = x == y
	}()
	return c.Bool(eq)
}

func deepEqList(c *smt.Ctx, xs, ys []value, depth int) *smt.Term {
	cs := make([]*smt.Term, 0, len(xs))
	for i := range xs {
		t := deepEqTerm(c, xs[i], ys[i], depth+1)
		if t.IsFalse() {
			return c.False
		}
		cs = append(cs, t)
	}
	return c.BAnd(cs...)
}

func init() {
	deq := func(fr *frame, args []value) value {
		c := smt.NewCtx()
		if fr.i.ex != nil {
			c = fr.i.ex.Ctx
		}
		// arguments arrive as interface{} values
		x, y := args[0], args[1]
		return mkBoolVal(deepEqTerm(c, x, y, 0))
	}
	externals["reflect.DeepEqual"] = deq
	externals[VerifPkg+".DeepEqual"] = deq
}

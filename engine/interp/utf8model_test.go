package interp

import (
	"math/rand"
	"testing"
	"unicode/utf8"
)

func modelValid(b []byte) bool {
	st := 0
	for _, x := range b {
		st = utf8Next(st, x)
	}
	return st == 0
}

// the automaton behind the utf8.Valid summary agrees with the library: all inputs of length <= 2, all 3-byte inputs
// with interesting lead bytes, and random longer ones
func TestUTF8AutomatonAgainstLibrary(t *testing.T) {
	check := func(b []byte) {
		if modelValid(b) != utf8.Valid(b) {
			t.Fatalf("mismatch on % x: model %v library %v", b, modelValid(b), utf8.Valid(b))
		}
	}
	check(nil)
	for a := 0; a < 256; a++ {
		check([]byte{byte(a)})
		for b := 0; b < 256; b++ {
			check([]byte{byte(a), byte(b)})
		}
	}
	for _, a := range []int{0x7f, 0x80, 0xc1, 0xc2, 0xdf, 0xe0, 0xe1, 0xec, 0xed, 0xee, 0xef, 0xf0, 0xf1, 0xf3, 0xf4, 0xf5, 0xff} {
		for b := 0; b < 256; b++ {
			for c := 0; c < 256; c++ {
				check([]byte{byte(a), byte(b), byte(c)})
				check([]byte{byte(a), byte(b), byte(c), 0x80})
				check([]byte{byte(a), byte(b), byte(c), 0xbf, 'x'})
			}
		}
	}
	rnd := rand.New(rand.NewSource(1))
	for i := 0; i < 200000; i++ {
		n := rnd.Intn(9)
		b := make([]byte, n)
		for j := range b {
			if rnd.Intn(3) == 0 {
				b[j] = byte(rnd.Intn(256))
			} else {
				b[j] = []byte{0x41, 0x80, 0xbf, 0xc2, 0xe0, 0xa0, 0xed, 0x9f, 0xf0, 0x90, 0xf4, 0x8f}[rnd.Intn(12)]
			}
		}
		check(b)
	}
}

// Symbolic lifting of the interpreter's scalar operations.
package interp

import (
	"fmt"
	"go/token"
	"go/types"
	"sort"

	"verif/engine/smt"
)

// symstr is a string whose bytes may be symbolic; its length is concrete.
type symstr struct{ d *[]value }

func (s symstr) bytes() []value { return *s.d }
func mkSymstr(b []value) value {
	// collapse to a plain string when all bytes are concrete
	conc := true
	for _, x := range b {
		if _, ok := x.(sym); ok {
			conc = false
			break
		}
	}
	if conc {
		bs := make([]byte, len(b))
		for i, x := range b {
			bs[i] = x.(byte)
		}
		return string(bs)
	}
	cp := make([]value, len(b))
	copy(cp, b)
	return symstr{&cp}
}

// symptr is the address of a scalar element selected by a symbolic index.
type symptr struct {
	s   []value
	idx *smt.Term // 64-bit, known in range
}

func isSym(v value) bool { _, ok := v.(sym); return ok }

func intInfo(t types.Type) (w int, signed bool, ok bool) {
	b, isb := t.Underlying().(*types.Basic)
	if !isb {
		return 0, false, false
	}
	switch b.Kind() {
	case types.Bool, types.UntypedBool:
		return 0, false, true
	case types.Int8:
		return 8, true, true
	case types.Int16:
		return 16, true, true
	case types.Int32, types.UntypedRune:
		return 32, true, true
	case types.Int, types.Int64, types.UntypedInt:
		return 64, true, true
	case types.Uint8:
		return 8, false, true
	case types.Uint16:
		return 16, false, true
	case types.Uint32:
		return 32, false, true
	case types.Uint, types.Uint64, types.Uintptr:
		return 64, false, true
	}
	return 0, false, false
}

func concInfo(v value) (w int, signed bool, u uint64, ok bool) {
	switch x := v.(type) {
	case bool:
		if x {
			return 0, false, 1, true
		}
		return 0, false, 0, true
	case int:
		return 64, true, uint64(x), true
	case int8:
		return 8, true, uint64(x), true
	case int16:
		return 16, true, uint64(x), true
	case int32:
		return 32, true, uint64(x), true
	case int64:
		return 64, true, uint64(x), true
	case uint:
		return 64, false, uint64(x), true
	case uint8:
		return 8, false, uint64(x), true
	case uint16:
		return 16, false, uint64(x), true
	case uint32:
		return 32, false, uint64(x), true
	case uint64:
		return 64, false, x, true
	case uintptr:
		return 64, false, uint64(x), true
	}
	return 0, false, 0, false
}

// termOf lifts a concrete or symbolic scalar into a term.
func termOf(c *smt.Ctx, v value) *smt.Term {
	if s, ok := v.(sym); ok {
		return s.t
	}
	w, _, u, ok := concInfo(v)
	if !ok {
		panic(pathAbort{fmt.Sprintf("termOf: cannot lift %T", v)})
	}
	return c.Const(u, w)
}

// mkVal turns a term back into an interpreter value of static type t (concrete when the term is constant).
func mkVal(t types.Type, tm *smt.Term) value {
	if !tm.IsConst() {
		return sym{tm}
	}
	return concOfType(t, tm.Val)
}

func concOfType(t types.Type, u uint64) value {
	b := t.Underlying().(*types.Basic)
	switch b.Kind() {
	case types.Bool, types.UntypedBool:
		return u != 0
	case types.Int, types.UntypedInt:
		return int(int64(u))
	case types.Int8:
		return int8(u)
	case types.Int16:
		return int16(u)
	case types.Int32, types.UntypedRune:
		return int32(u)
	case types.Int64:
		return int64(u)
	case types.Uint:
		return uint(u)
	case types.Uint8:
		return uint8(u)
	case types.Uint16:
		return uint16(u)
	case types.Uint32:
		return uint32(u)
	case types.Uint64:
		return u
	case types.Uintptr:
		return uintptr(u)
	}
	panic(pathAbort{"concOfType: " + t.String()})
}

func ctxOf(vs ...value) *smt.Ctx {
	for _, v := range vs {
		if s, ok := v.(sym); ok {
			return s.t.C
		}
	}
	return nil
}

func resize(c *smt.Ctx, t *smt.Term, w int, signed bool) *smt.Term {
	if t.W == w {
		return t
	}
	if t.W == 0 || w == 0 {
		panic(pathAbort{"resize bool/bv"})
	}
	if t.W > w {
		return c.Extract(t, 0, w)
	}
	if signed {
		return c.SExt(t, w)
	}
	return c.ZExt(t, w)
}

// raisePanic panics like the Go runtime would inside the target program.
type symRuntimeError struct{ msg string }

func (e symRuntimeError) Error() string { return "runtime error: " + e.msg }
func (e symRuntimeError) RuntimeError() {}

// symBinop implements binop when at least one operand is symbolic. t is the static type of x.
func symBinop(op token.Token, t types.Type, x, y value, yt types.Type) value {
	c := ctxOf(x, y)
	e := c.Owner.(*Explorer)
	w, signed, ok := intInfo(t)
	if !ok {
		panic(pathAbort{fmt.Sprintf("symBinop %s on %s", op, t)})
	}
	a, b := termOf(c, x), termOf(c, y)
	boolv := func(tm *smt.Term) value {
		if tm.IsConst() {
			return tm.Val != 0
		}
		return sym{tm}
	}
	if w == 0 {
		switch op {
		case token.EQL:
			return boolv(c.Eq(a, b))
		case token.NEQ:
			return boolv(c.BNot(c.Eq(a, b)))
		case token.AND, token.LAND:
			return boolv(c.BAnd(a, b))
		case token.OR, token.LOR:
			return boolv(c.BOr(a, b))
		}
		panic(pathAbort{"symBinop bool op " + op.String()})
	}
	switch op {
	case token.SHL, token.SHR:
		_, ysigned, _ := intInfo(yt)
		if ysigned {
			// negative shift count panics
			neg := c.Cmp(smt.OpSLt, b, c.Const(0, b.W))
			if e.Branch(neg) {
				panic(symRuntimeError{"negative shift amount"})
			}
		}
		W := w
		if b.W > W {
			W = b.W
		}
		aa := resize(c, a, W, signed)
		bb := resize(c, b, W, false)
		var r *smt.Term
		switch {
		case op == token.SHL:
			r = c.Bin(smt.OpShl, aa, bb)
		case signed:
			r = c.Bin(smt.OpAShr, aa, bb)
		default:
			r = c.Bin(smt.OpLShr, aa, bb)
		}
		return mkVal(t, c.Extract(r, 0, w))
	}
	if a.W != w || b.W != w {
		a = resize(c, a, w, signed)
		b = resize(c, b, w, signed)
	}
	switch op {
	case token.ADD:
		return mkVal(t, c.Bin(smt.OpAdd, a, b))
	case token.SUB:
		return mkVal(t, c.Bin(smt.OpSub, a, b))
	case token.MUL:
		return mkVal(t, c.Bin(smt.OpMul, a, b))
	case token.AND:
		return mkVal(t, c.Bin(smt.OpAnd, a, b))
	case token.OR:
		return mkVal(t, c.Bin(smt.OpOr, a, b))
	case token.XOR:
		return mkVal(t, c.Bin(smt.OpXor, a, b))
	case token.AND_NOT:
		return mkVal(t, c.Bin(smt.OpAnd, a, c.Not(b)))
	case token.QUO, token.REM:
		if e.Branch(c.Eq(b, c.Const(0, w))) {
			panic(symRuntimeError{"integer divide by zero"})
		}
		var o smt.Op
		switch {
		case op == token.QUO && signed:
			o = smt.OpSDiv
		case op == token.QUO:
			o = smt.OpUDiv
		case signed:
			o = smt.OpSRem
		default:
			o = smt.OpURem
		}
		return mkVal(t, c.Bin(o, a, b))
	case token.EQL:
		return boolv(c.Eq(a, b))
	case token.NEQ:
		return boolv(c.BNot(c.Eq(a, b)))
	case token.LSS:
		if signed {
			return boolv(c.Cmp(smt.OpSLt, a, b))
		}
		return boolv(c.Cmp(smt.OpULt, a, b))
	case token.LEQ:
		if signed {
			return boolv(c.Cmp(smt.OpSLe, a, b))
		}
		return boolv(c.Cmp(smt.OpULe, a, b))
	case token.GTR:
		if signed {
			return boolv(c.Cmp(smt.OpSLt, b, a))
		}
		return boolv(c.Cmp(smt.OpULt, b, a))
	case token.GEQ:
		if signed {
			return boolv(c.Cmp(smt.OpSLe, b, a))
		}
		return boolv(c.Cmp(smt.OpULe, b, a))
	}
	panic(pathAbort{"symBinop: op " + op.String()})
}

func symUnop(op token.Token, t types.Type, s sym) value {
	c := s.t.C
	switch op {
	case token.SUB:
		return mkVal(t, c.Neg(s.t))
	case token.XOR:
		return mkVal(t, c.Not(s.t))
	case token.NOT:
		return mkVal(t, c.BNot(s.t))
	}
	panic(pathAbort{"symUnop " + op.String()})
}

func symConv(tdst, tsrc types.Type, s sym) value {
	wd, _, ok1 := intInfo(tdst)
	_, ss, ok2 := intInfo(tsrc)
	if !ok1 || !ok2 || wd == 0 {
		if b, ok := tdst.Underlying().(*types.Basic); ok && b.Kind() == types.String {
			// string(rune/byte)
			e := exOf(s.t)
			v := e.ForkValue(s.t, ss, "string(int)")
			return conv(tdst, tsrc, concOfType(tsrc, uint64(v)))
		}
		panic(pathAbort{fmt.Sprintf("symConv: unsupported %s <- %s", tdst, tsrc)})
	}
	return mkVal(tdst, resize(s.t.C, s.t, wd, ss))
}

// ---- concretisation ----

// ForkValue forks the path over the feasible values of t (as a signed/unsigned integer), returning one.
func (e *Explorer) ForkValue(t *smt.Term, signed bool, site string) int64 {
	if t.IsConst() {
		if signed {
			return int64(smtSext(t.Val, t.W))
		}
		return int64(t.Val)
	}
	var choice int64
	if e.pos < len(e.prefix) {
		choice = int64(e.prefix[e.pos])
	} else {
		// enumerate feasible values: cached models first, then the solver
		var vals []uint64
		seen := map[uint64]bool{}
		var excl []*smt.Term
		limit := e.ForkLimit
		add := func(v uint64) {
			seen[v] = true
			vals = append(vals, v)
			excl = append(excl, e.Ctx.BNot(e.Ctx.Eq(t, e.Ctx.Const(v, t.W))))
		}
		for _, m := range e.models {
			if m.alive {
				if v := smt.Eval(t, m.env, m.memo); !seen[v] {
					add(v)
					e.CacheHits++
				}
			}
		}
		for len(vals) < limit+1 {
			r, cm := e.query(e.Ctx.BAnd(excl...))
			if r == smt.Unknown {
				e.noteAbort("solver unknown in value fork at " + site)
				break
			}
			if r == smt.Unsat {
				break
			}
			add(smt.Eval(t, cm.env, cm.memo))
		}
		if len(vals) > limit {
			vals = vals[:limit]
			e.noteAbort("value fork limit at " + site)
		}
		if len(vals) == 0 {
			panic(pathInfeasible{})
		}
		sort.Slice(vals, func(i, j int) bool { return vals[i] < vals[j] })
		toInt := func(u uint64) int64 {
			if signed {
				return smtSext(u, t.W)
			}
			return int64(u)
		}
		choice = toInt(vals[0])
		if len(vals) > 1 && e.curFn != nil {
			e.Sh.mu.Lock()
			e.Sh.ForkSites[e.curFn.String()+"#value"] += len(vals) - 1
			e.Sh.mu.Unlock()
		}
		for k := len(vals) - 1; k >= 1; k-- {
			alt := make([]int, len(e.taken)+1)
			copy(alt, e.taken)
			alt[len(e.taken)] = int(toInt(vals[k]))
			e.Sh.push(alt)
		}
		e.Sh.mu.Lock()
		e.Sh.Decisions++
		e.Sh.mu.Unlock()
	}
	e.pos++
	e.taken = append(e.taken, int(choice))
	e.addPC(e.Ctx.Eq(t, e.Ctx.Const(uint64(choice), t.W)))
	return choice
}

func smtSext(v uint64, w int) int64 {
	if w >= 64 {
		return int64(v)
	}
	s := uint(64 - w)
	return int64(v<<s) >> s
}

func (e *Explorer) noteAbort(reason string) {
	e.Sh.mu.Lock()
	e.Sh.Aborted["partial:"+reason]++
	e.Sh.mu.Unlock()
}

// concInt returns a concrete integer for v; a symbolic v is forked over its feasible values.
func concInt(v value, site string) int64 { return concIntT(v, nil, site) }

func concIntT(v value, vt types.Type, site string) int64 {
	s, ok := v.(sym)
	if !ok {
		return asInt64(v)
	}
	e := exOf(s.t)
	signed := true
	if vt != nil {
		if _, sg, ok := intInfo(vt); ok {
			signed = sg
		}
	}
	return e.ForkValue(s.t, signed, site)
}

// concBool decides a possibly symbolic bool.
func concBool(v value) bool {
	switch c := v.(type) {
	case bool:
		return c
	case sym:
		return exOf(c.t).Branch(c.t)
	}
	panic(fmt.Sprintf("concBool: %T", v))
}

// inRange forks on lo <= v <= hi (signed 64-bit view). Returns false on the out-of-range branch.
func inRange(v value, lo, hi int64) bool { return inRangeT(v, lo, hi, nil) }

// inRangeT: vt is the static type of v (decides sign or zero extension of narrow operands).
func inRangeT(v value, lo, hi int64, vt types.Type) bool {
	s, ok := v.(sym)
	if !ok {
		if u, isU := v.(uint64); isU && u > 1<<62 {
			return false
		}
		x := asInt64(v)
		return lo <= x && x <= hi
	}
	c := s.t.C
	t := extIndex(s.t, vt)
	if hi < lo {
		return false
	}
	in := c.BAnd(c.Cmp(smt.OpSLe, c.Const(uint64(lo), 64), t), c.Cmp(smt.OpSLe, t, c.Const(uint64(hi), 64)))
	return exOf(s.t).Branch(in)
}

func idxTerm(v value) *smt.Term { return idxTermT(v, nil) }

func idxTermT(v value, vt types.Type) *smt.Term { return extIndex(v.(sym).t, vt) }

// extIndex widens an index operand to 64 bits according to its static type (unsigned types zero-extend).
func extIndex(t *smt.Term, vt types.Type) *smt.Term {
	if t.W >= 64 {
		return t
	}
	signed := true
	if vt != nil {
		if _, sg, ok := intInfo(vt); ok {
			signed = sg
		}
	}
	if signed {
		return t.C.SExt(t, 64)
	}
	return t.C.ZExt(t, 64)
}

func isScalarType(t types.Type) bool {
	_, _, ok := intInfo(t)
	return ok
}

// selectElem builds the ite chain s[idx] for scalar elements (idx known in range).
func selectElem(s []value, idx *smt.Term, et types.Type) value {
	c := idx.C
	n := len(s)
	// table2[table1[x]]: compose the two constant tables instead of nesting the chains (hex decode of hex encode)
	if t1, ok := c.AsTable(idx); ok {
		if t2, ok := constByteTable(s); ok {
			at := func(k uint64) uint64 {
				if v := t1.At(k); v < uint64(len(t2)) {
					return uint64(t2[v])
				}
				return 0 // unreachable: the index was checked against the length before
			}
			nk := uint64(len(t1.Keys))
			ident := t1.X.W >= 8 && t1.Dense() && at(nk) == nk
			for _, k := range t1.Keys {
				ident = ident && at(k) == k
			}
			if ident {
				return mkVal(et, c.Extract(t1.X, 0, 8))
			}
			r := c.Const(at(^uint64(0)), 8)
			for i := len(t1.Keys) - 1; i >= 0; i-- {
				r = c.Ite(c.Eq(t1.X, c.Const(t1.Keys[i], t1.X.W)), c.Const(at(t1.Keys[i]), 8), r)
			}
			return mkVal(et, r)
		}
	}
	r := termOf(c, s[n-1])
	for k := n - 2; k >= 0; k-- {
		r = c.Ite(c.Eq(idx, c.Const(uint64(k), 64)), termOf(c, s[k]), r)
	}
	return mkVal(et, r)
}

// constByteTable returns the elements when all are concrete bytes.
func constByteTable(s []value) ([]byte, bool) {
	b := make([]byte, len(s))
	for i, v := range s {
		x, ok := v.(uint8)
		if !ok {
			return nil, false
		}
		b[i] = x
	}
	return b, true
}

func storeElem(s []value, idx *smt.Term, v value, et types.Type) {
	c := idx.C
	vt := termOf(c, v)
	for k := range s {
		s[k] = mkVal(et, c.Ite(c.Eq(idx, c.Const(uint64(k), 64)), vt, termOf(c, s[k])))
	}
}

// ---- equality ----

// eqv computes x == y for type t, returning bool or sym without forking.
func eqv(t types.Type, x, y value) value {
	c := deepCtx(x, y)
	if c == nil {
		return equals(t, x, y)
	}
	tm := eqTerm(c, t, x, y)
	if tm.IsConst() {
		return tm.Val != 0
	}
	return sym{tm}
}

func deepCtx(vs ...value) *smt.Ctx {
	for _, v := range vs {
		switch x := v.(type) {
		case sym:
			return x.t.C
		case symstr:
			for _, b := range x.bytes() {
				if s, ok := b.(sym); ok {
					return s.t.C
				}
			}
		case structure:
			if c := deepCtx([]value(x)...); c != nil {
				return c
			}
		case array:
			if c := deepCtx([]value(x)...); c != nil {
				return c
			}
		case iface:
			if c := deepCtx(x.v); c != nil {
				return c
			}
		}
	}
	return nil
}

func strBytes(v value) ([]value, bool) {
	switch s := v.(type) {
	case string:
		out := make([]value, len(s))
		for i := 0; i < len(s); i++ {
			out[i] = s[i]
		}
		return out, true
	case symstr:
		return s.bytes(), true
	}
	return nil, false
}

func bytesEqTerm(c *smt.Ctx, a, b []value) *smt.Term {
	if len(a) != len(b) {
		return c.False
	}
	cs := make([]*smt.Term, 0, len(a))
	for i := range a {
		ta, tb := termOf(c, a[i]), termOf(c, b[i])
		q := c.Eq(ta, tb)
		if q.IsFalse() {
			return c.False
		}
		cs = append(cs, q)
	}
	return c.BAnd(cs...)
}

func eqTerm(c *smt.Ctx, t types.Type, x, y value) *smt.Term {
	switch xv := x.(type) {
	case sym:
		return c.Eq(xv.t, termOf(c, y))
	case symstr, string:
		if ys, ok := strBytes(y); ok {
			xs, _ := strBytes(x)
			return bytesEqTerm(c, xs, ys)
		}
	case structure:
		st := t.Underlying().(*types.Struct)
		yv := y.(structure)
		cs := make([]*smt.Term, 0, len(xv))
		for i := range xv {
			if st.Field(i).Name() == "_" {
				continue
			}
			cs = append(cs, eqTerm(c, st.Field(i).Type(), xv[i], yv[i]))
		}
		return c.BAnd(cs...)
	case array:
		et := t.Underlying().(*types.Array).Elem()
		yv := y.(array)
		cs := make([]*smt.Term, 0, len(xv))
		for i := range xv {
			cs = append(cs, eqTerm(c, et, xv[i], yv[i]))
		}
		return c.BAnd(cs...)
	case iface:
		yv := y.(iface)
		if xv.t == nil || yv.t == nil {
			return c.Bool(xv.t == nil && yv.t == nil)
		}
		if !sameType(xv.t, yv.t) {
			return c.False
		}
		return eqTerm(c, xv.t, xv.v, yv.v)
	}
	if _, ok := y.(sym); ok {
		return c.Eq(termOf(c, x), termOf(c, y))
	}
	return c.Bool(equals(t, x, y))
}

// strCompare returns the term for x < y (strict) or x <= y over (sym)strings.
func strLessTerm(c *smt.Ctx, a, b []value, orEqual bool) *smt.Term {
	// lexicographic: exists i: prefix equal and a[i]<b[i]; or a is a proper prefix (or equal when orEqual)
	n := len(a)
	if len(b) < n {
		n = len(b)
	}
	var res *smt.Term
	if len(a) < len(b) || (orEqual && len(a) == len(b)) {
		res = c.True
	} else {
		res = c.False
	}
	for i := n - 1; i >= 0; i-- {
		ta, tb := termOf(c, a[i]), termOf(c, b[i])
		res = c.Ite(c.Eq(ta, tb), res, c.Cmp(smt.OpULt, ta, tb))
	}
	return res
}

func symStringBinop(op token.Token, x, y value) value {
	c := deepCtx(x, y)
	xs, _ := strBytes(x)
	ys, _ := strBytes(y)
	bv := func(t *smt.Term) value {
		if t.IsConst() {
			return t.Val != 0
		}
		return sym{t}
	}
	switch op {
	case token.ADD:
		out := make([]value, 0, len(xs)+len(ys))
		out = append(out, xs...)
		out = append(out, ys...)
		return mkSymstr(out)
	case token.EQL:
		return bv(bytesEqTerm(c, xs, ys))
	case token.NEQ:
		return bv(c.BNot(bytesEqTerm(c, xs, ys)))
	case token.LSS:
		return bv(strLessTerm(c, xs, ys, false))
	case token.LEQ:
		return bv(strLessTerm(c, xs, ys, true))
	case token.GTR:
		return bv(strLessTerm(c, ys, xs, false))
	case token.GEQ:
		return bv(strLessTerm(c, ys, xs, true))
	}
	panic(pathAbort{"symStringBinop " + op.String()})
}

// symstrIter ranges over a symstr; non-ASCII bytes end the path as inconclusive.
type symstrIter struct {
	b []value
	i int
}

func (it *symstrIter) next() tuple {
	if it.i >= len(it.b) {
		return tuple{false, nil, nil}
	}
	i := it.i
	x := it.b[i]
	it.i++
	if s, ok := x.(sym); ok {
		c := s.t.C
		if !exOf(s.t).Branch(c.Cmp(smt.OpULt, s.t, c.Const(0x80, 8))) {
			panic(pathAbort{"range over symbolic non-ASCII string"})
		}
		return tuple{true, i, mkVal(types.Typ[types.Int32], c.ZExt(s.t, 32))}
	}
	b := x.(byte)
	if b >= 0x80 {
		// decode concretely if the whole rune is concrete
		panic(pathAbort{"range over symstr with concrete non-ASCII byte"})
	}
	return tuple{true, i, rune(b)}
}

// Engine intrinsics: the verif.* harness API, gothemis hooks, std externals.
package interp

import (
	"crypto/hmac"
	"crypto/sha256"
	"crypto/sha512"
	"fmt"
	"go/types"
	"strings"

	"verif/engine/smt"
)

// Tier is 0 (quick) or 1 (thorough); read by harnesses through verif.Tier().
var Tier = 0

const VerifPkg = "github.com/cossacklabs/acra/zz_verif/verif"
const HookPkg = "github.com/cossacklabs/themis/gothemis/hook"

type hashApp struct {
	kind  string
	parts [][]value
	out   []value
}

type opaqueEntry struct {
	id   string
	snap value
	t    types.Type
}

type sinkRec struct {
	kind  string
	bytes []value
}

func needEx(fr *frame) *Explorer {
	if fr.i.ex == nil {
		panic("verif intrinsic used without explorer")
	}
	return fr.i.ex
}

func argStr(v value) string {
	switch s := v.(type) {
	case string:
		return s
	case symstr:
		panic(pathAbort{"symbolic string passed as intrinsic name"})
	}
	return fmt.Sprint(v)
}

func init() {
	// stock externals that are wrong or that hide symbolic data: interpret std instead
	for _, k := range []string{"bytes.Equal", "bytes.IndexByte", "strings.Count", "strings.EqualFold", "strings.Index",
		"strings.IndexByte", "strings.Replace", "strings.ToLower", "strconv.Atoi", "strconv.Itoa", "sort.Ints", "sort.Strings",
		"sort.Float64s", "unicode/utf8.DecodeRuneInString", "fmt.Sprint", "os.Getenv"} {
		delete(externals, k)
	}

	V := func(name string, f externalFn) {
		externals[VerifPkg+"."+name] = f
	}
	H := func(name string, f externalFn) {
		externals[HookPkg+"."+name] = f
	}

	V("Symbolic", func(fr *frame, args []value) value { return fr.i.ex != nil })
	H("Symbolic", func(fr *frame, args []value) value { return fr.i.ex != nil })

	V("Bytes", func(fr *frame, args []value) value {
		return needEx(fr).NamedBytes(argStr(args[0]), int(asInt64(args[1])))
	})
	mkInt := func(t types.BasicKind, w int) externalFn {
		return func(fr *frame, args []value) value {
			return mkVal(types.Typ[t], needEx(fr).NamedInt(argStr(args[0]), w))
		}
	}
	V("U8", mkInt(types.Uint8, 8))
	V("U16", mkInt(types.Uint16, 16))
	V("U32", mkInt(types.Uint32, 32))
	V("U64", mkInt(types.Uint64, 64))
	V("I32", mkInt(types.Int32, 32))
	V("I64", mkInt(types.Int64, 64))
	V("Int", mkInt(types.Int, 64))
	V("Bool", func(fr *frame, args []value) value {
		e := needEx(fr)
		return sym{e.Ctx.Var("bv_"+argStr(args[0]), 0)}
	})
	V("Choose", func(fr *frame, args []value) value {
		e := needEx(fr)
		lo, hi := asInt64(args[1]), asInt64(args[2])
		t := e.NamedInt(argStr(args[0]), 64)
		c := e.Ctx
		e.Assume(c.BAnd(c.Cmp(smt.OpSLe, c.Const(uint64(lo), 64), t), c.Cmp(smt.OpSLe, t, c.Const(uint64(hi), 64))))
		old := e.ForkLimit
		if int(hi-lo+1) > e.ForkLimit {
			e.ForkLimit = int(hi - lo + 1)
		}
		v := e.ForkValue(t, true, "choose")
		e.ForkLimit = old
		return int(v)
	})
	assume := func(fr *frame, args []value) value {
		switch c := args[0].(type) {
		case bool:
			if !c {
				panic(pathInfeasible{})
			}
		case sym:
			needEx(fr).Assume(c.t)
		}
		return nil
	}
	V("Assume", assume)
	H("Assume", func(fr *frame, args []value) value {
		// only used by the ideal models on fresh symbols: always satisfiable, no query needed
		switch c := args[0].(type) {
		case bool:
			if !c {
				panic(pathInfeasible{})
			}
		case sym:
			needEx(fr).AssumeNoCheck(c.t)
		}
		return nil
	})
	V("Assert", func(fr *frame, args []value) value {
		e := needEx(fr)
		id := argStr(args[1])
		switch c := args[0].(type) {
		case bool:
			e.Assert(e.Ctx.Bool(c), id)
		case sym:
			e.Assert(c.t, id)
		}
		return nil
	})
	V("Reach", func(fr *frame, args []value) value { needEx(fr).Reach(argStr(args[0])); return nil })
	fresh := func(fr *frame, args []value) value {
		return needEx(fr).FreshCat(argStr(args[0]), int(asInt64(args[1])))
	}
	V("Fresh", fresh)
	H("Fresh", fresh)
	eqNoFork := func(fr *frame, args []value) value {
		a, b := args[0].([]value), args[1].([]value)
		c := deepCtx(array(a), array(b))
		if c == nil {
			if len(a) != len(b) {
				return false
			}
			for i := range a {
				if a[i] != b[i] {
					return false
				}
			}
			return true
		}
		return mkBoolVal(bytesEqTerm(c, a, b))
	}
	V("Eq", eqNoFork)
	H("Eq", eqNoFork)
	V("And", func(fr *frame, args []value) value { return boolOp(fr, args, true) })
	V("Or", func(fr *frame, args []value) value { return boolOp(fr, args, false) })
	not := func(fr *frame, args []value) value {
		if s, ok := args[0].(sym); ok {
			return mkBoolVal(s.t.C.BNot(s.t))
		}
		return !args[0].(bool)
	}
	V("Not", not)
	H("Not", not)
	H("And", func(fr *frame, args []value) value { return boolOp(fr, args, true) })
	V("Implies", func(fr *frame, args []value) value {
		e := needEx(fr)
		a, b := termOf(e.Ctx, args[0]), termOf(e.Ctx, args[1])
		return mkBoolVal(e.Ctx.BOr(e.Ctx.BNot(a), b))
	})
	V("Contains", func(fr *frame, args []value) value {
		// branch-free: does hay contain needle as a contiguous window
		e := needEx(fr)
		hay, needle := args[0].([]value), args[1].([]value)
		var ds []*smt.Term
		for i := 0; i+len(needle) <= len(hay); i++ {
			ds = append(ds, bytesEqTerm(e.Ctx, hay[i:i+len(needle)], needle))
		}
		return mkBoolVal(e.Ctx.BOr(ds...))
	})
	V("Concrete", func(fr *frame, args []value) value {
		// forks until every byte is concrete (use sparingly)
		b := args[0].([]value)
		for i := range b {
			if s, ok := b[i].(sym); ok {
				b[i] = uint8(exOf(s.t).ForkValue(s.t, false, "concrete"))
			}
		}
		return nil
	})
	oracle := func(fr *frame, args []value) value {
		e := needEx(fr)
		kind := argStr(args[0])
		outLen := int(asInt64(args[1]))
		var parts [][]value
		for _, p := range args[2].([]value) {
			parts = append(parts, p.([]value))
		}
		return e.Oracle(kind, outLen, parts)
	}
	V("Oracle", oracle)
	H("Oracle", oracle)
	V("StepBudget", func(fr *frame, args []value) value { needEx(fr).MaxSteps = int(asInt64(args[0])); return nil })
	V("AllocLimit", func(fr *frame, args []value) value { needEx(fr).AllocLimit = asInt64(args[0]); return nil })
	V("ForkLimit", func(fr *frame, args []value) value { needEx(fr).ForkLimit = int(asInt64(args[0])); return nil })
	V("Tier", func(fr *frame, args []value) value { return Tier })
	V("CaptureLogs", func(fr *frame, args []value) value { needEx(fr).CaptureLogs = true; return nil })
	V("LogContains", func(fr *frame, args []value) value {
		e := needEx(fr)
		needle := args[0].([]value)
		var ds []*smt.Term
		for _, hay := range e.logSink {
			for i := 0; i+len(needle) <= len(hay); i++ {
				ds = append(ds, bytesEqTerm(e.Ctx, hay[i:i+len(needle)], needle))
			}
		}
		return mkBoolVal(e.Ctx.BOr(ds...))
	})
	V("FreshASCII", func(fr *frame, args []value) value { needEx(fr).FreshASCII = true; return nil })
	V("AllowTagsInFresh", func(fr *frame, args []value) value { needEx(fr).AllowTagsInFresh = true; return nil })
	V("Log", func(fr *frame, args []value) value { return nil })

	// crypto/rand
	externals["crypto/rand.Read"] = func(fr *frame, args []value) value {
		b := args[0].([]value)
		if fr.i.ex == nil {
			for i := range b {
				b[i] = uint8(0x41 + i%7)
			}
		} else {
			copy(b, fr.i.ex.FreshCat("rnd", len(b)))
		}
		return tuple{len(b), iface{}}
	}
}

func boolOp(fr *frame, args []value, and bool) value {
	e := needEx(fr)
	var ts []*smt.Term
	for _, a := range args[0].([]value) {
		ts = append(ts, termOf(e.Ctx, a))
	}
	if and {
		return mkBoolVal(e.Ctx.BAnd(ts...))
	}
	return mkBoolVal(e.Ctx.BOr(ts...))
}

// FreshCat returns n fresh bytes of a category; (category, ordinal) identifies them in the replay model.
func (e *Explorer) FreshCat(cat string, n int) []value {
	if e.freshCat == nil {
		e.freshCat = map[string]int{}
	}
	k := e.freshCat[cat]
	e.freshCat[cat]++
	e.freshSizes[cat] = append(e.freshSizes[cat], n)
	out := make([]value, n)
	ts := make([]*smt.Term, n)
	for i := range out {
		ts[i] = e.Ctx.Var(fmt.Sprintf("fr_%s_%d_%d", cat, k, i), 8)
		out[i] = sym{ts[i]}
	}
	if e.FreshASCII && (cat == "ct" || cat == "wrap" || cat == "key") {
		c := e.Ctx
		var cs []*smt.Term
		for _, t := range ts {
			cs = append(cs, c.Cmp(smt.OpULt, t, c.Const(0x80, 8)))
		}
		if len(cs) > 0 {
			e.addPCRaw(c.BAnd(cs...))
		}
	}
	if !e.AllowTagsInFresh && (cat == "ct" || cat == "wrap" || cat == "key") {
		// modelling assumption (stated in the evidence): opaque crypto outputs contain no envelope tag sequence
		c := e.Ctx
		var cs []*smt.Term
		run := func(sym byte, k int) {
			for i := 0; i+k <= n; i++ {
				var eqs []*smt.Term
				for j := 0; j < k; j++ {
					eqs = append(eqs, c.Eq(ts[i+j], c.Const(uint64(sym), 8)))
				}
				cs = append(cs, c.BNot(c.BAnd(eqs...)))
			}
		}
		run('%', 3)
		run('"', 4)
		// ... and do not begin or end with tag symbols, so that no tag run straddles the boundary of an opaque value
		edge := func(sym byte, k int) {
			for j := 0; j < k && j < n; j++ {
				cs = append(cs, c.BNot(c.Eq(ts[j], c.Const(uint64(sym), 8))))
				cs = append(cs, c.BNot(c.Eq(ts[n-1-j], c.Const(uint64(sym), 8))))
			}
		}
		edge('%', 2)
		edge('"', 3)
		if len(cs) > 0 {
			e.addPCRaw(c.BAnd(cs...))
		}
	}
	return out
}

func allConcrete(parts [][]value) bool {
	for _, p := range parts {
		for _, b := range p {
			if _, ok := b.(sym); ok {
				return false
			}
		}
	}
	return true
}

func concBytes(p []value) []byte {
	out := make([]byte, len(p))
	for i, b := range p {
		out[i] = b.(byte)
	}
	return out
}

// realOracle computes the real function for fully concrete arguments (matches the native replay).
func realOracle(kind string, outLen int, parts [][]value) ([]byte, bool) {
	switch kind {
	case "sha256":
		h := sha256.Sum256(concBytes(parts[0]))
		return h[:], true
	case "sha512":
		h := sha512.Sum512(concBytes(parts[0]))
		return h[:], true
	case "hmac-sha256":
		m := hmac.New(sha256.New, concBytes(parts[0]))
		m.Write(concBytes(parts[1]))
		return m.Sum(nil), true
	}
	return nil, false
}

// Oracle is an ideal function: deterministic and collision-free over (kind, parts).
func (e *Explorer) Oracle(kind string, outLen int, parts [][]value) []value {
	cp := make([][]value, len(parts))
	for i, p := range parts {
		cp[i] = append([]value{}, p...)
	}
	var out []value
	if allConcrete(cp) {
		if r, ok := realOracle(kind, outLen, cp); ok && len(r) == outLen {
			out = make([]value, outLen)
			for i := range r {
				out[i] = r[i]
			}
		}
	}
	// identical earlier application (syntactically) returns the same output
	c := e.Ctx
	for _, a := range e.hashApps {
		if a.kind != kind || len(a.parts) != len(cp) {
			continue
		}
		same := true
		for i := range cp {
			if !bytesEqTerm(c, a.parts[i], cp[i]).IsTrue() {
				same = false
				break
			}
		}
		if same {
			return append([]value{}, a.out...)
		}
	}
	if out == nil {
		out = e.FreshCat("h", outLen)
	}
	for _, a := range e.hashApps {
		if len(a.out) != len(out) {
			continue
		}
		eqIn := c.False
		if a.kind == kind && len(a.parts) == len(cp) {
			cs := make([]*smt.Term, len(cp))
			for i := range cp {
				cs[i] = bytesEqTerm(c, a.parts[i], cp[i])
			}
			eqIn = c.BAnd(cs...)
		}
		eqOut := bytesEqTerm(c, a.out, out)
		e.AssumeNoCheck(c.Eq(eqIn, eqOut))
	}
	e.hashApps = append(e.hashApps, hashApp{kind, cp, append([]value{}, out...)})
	return out
}

func pkgOfFunc(name string) string {
	if i := strings.LastIndex(name, "."); i >= 0 {
		return name[:i]
	}
	return name
}

func init() {
	externals[VerifPkg+".Secret"] = func(fr *frame, args []value) value {
		e := needEx(fr)
		for _, b := range args[0].([]value) {
			if s, ok := b.(sym); ok {
				for _, v := range smt.VarsOf([]*smt.Term{s.t}) {
					e.secretVars[v.Name] = v
				}
			}
		}
		return nil
	}
	externals[VerifPkg+".Sink"] = func(fr *frame, args []value) value {
		e := needEx(fr)
		e.sinks = append(e.sinks, sinkRec{argStr(args[0]), append([]value{}, args[1].([]value)...)})
		return nil
	}
	// NoLeak: no recorded sink byte depends on a secret variable (decided semantically: two runs that differ
	// only in the secrets, both satisfying the path condition, produce the same sink bytes).
	externals[VerifPkg+".NoLeak"] = func(fr *frame, args []value) value {
		e := needEx(fr)
		id := argStr(args[0])
		c := e.Ctx
		ren := map[string]*smt.Term{}
		for name, v := range e.secretVars {
			ren[name] = c.Var("sx_"+name, v.W)
		}
		memo := map[int]*smt.Term{}
		var diffs []*smt.Term
		for _, sk := range e.sinks {
			for _, b := range sk.bytes {
				s, ok := b.(sym)
				if !ok {
					continue
				}
				dep := false
				for _, v := range smt.VarsOf([]*smt.Term{s.t}) {
					if _, isSecret := e.secretVars[v.Name]; isSecret {
						dep = true
						break
					}
				}
				if !dep {
					continue
				}
				diffs = append(diffs, c.BNot(c.Eq(s.t, c.Subst(s.t, ren, memo))))
			}
		}
		if len(diffs) == 0 {
			e.Assert(c.True, id)
			return nil
		}
		var pc2 []*smt.Term
		for _, p := range e.pc {
			pc2 = append(pc2, c.Subst(p, ren, memo))
		}
		leak := c.BAnd(append(pc2, c.BOr(diffs...))...)
		e.Assert(c.BNot(leak), id)
		return nil
	}
}

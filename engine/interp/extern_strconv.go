package interp

import (
	"fmt"
	"go/types"

	"verif/engine/smt"
)

type notHandledT struct{}

// notHandled is returned by an external that declines; the function body is interpreted instead.
var notHandled = &notHandledT{}

// Decimal formatting/parsing of symbolic integers ("opaque decimal" model with real bytes):
// FormatInt(v) forks on sign and digit count and returns digit bytes d_i in '0'..'9' defined by
// |v| = sum d_i*10^(k-1-i); ParseInt of exactly those bytes returns v without re-doing the arithmetic.

type decRecord struct {
	ids []int
	val *smt.Term // 64-bit signed value
}

func pow10(k int) uint64 {
	r := uint64(1)
	for i := 0; i < k; i++ {
		r *= 10
	}
	return r
}

func (e *Explorer) formatDecimal(v *smt.Term, signed bool) value {
	c := e.Ctx
	if v.W < 64 {
		if signed {
			v = c.SExt(v, 64)
		} else {
			v = c.ZExt(v, 64)
		}
	}
	neg := false
	mag := v
	if signed {
		if e.Branch(c.Cmp(smt.OpSLt, v, c.Const(0, 64))) {
			neg = true
			mag = c.Neg(v) // MinInt64 keeps its bit pattern, read as unsigned magnitude 2^63
		}
	}
	// digit count
	var conds []*smt.Term
	for k := 1; k <= 20; k++ {
		lo := c.Const(pow10(k-1), 64)
		if k == 1 {
			lo = c.Const(0, 64)
		}
		cond := c.Cmp(smt.OpULe, lo, mag)
		if k < 20 {
			cond = c.BAnd(cond, c.Cmp(smt.OpULt, mag, c.Const(pow10(k), 64)))
		}
		conds = append(conds, cond)
	}
	k := e.Decide(conds, true) + 1
	digits := make([]value, k)
	sum := c.Const(0, 64)
	ids := make([]int, 0, k+1)
	if e.freshCat == nil {
		e.freshCat = map[string]int{}
	}
	ord := e.freshCat["dec"]
	e.freshCat["dec"] = ord + 1
	for i := 0; i < k; i++ {
		d := c.Var(fmt.Sprintf("dg_%d_%d", ord, i), 8)
		lo := byte('0')
		if i == 0 && k > 1 {
			lo = '1'
		}
		e.AssumeNoCheck(c.BAnd(c.Cmp(smt.OpULe, c.Const(uint64(lo), 8), d), c.Cmp(smt.OpULe, d, c.Const('9', 8))))
		dv := c.ZExt(c.Bin(smt.OpSub, d, c.Const('0', 8)), 64)
		sum = c.Bin(smt.OpAdd, sum, c.Bin(smt.OpMul, dv, c.Const(pow10(k-1-i), 64)))
		digits[i] = sym{d}
	}
	e.AssumeNoCheck(c.Eq(sum, mag))
	out := digits
	if neg {
		out = append([]value{byte('-')}, digits...)
	}
	for _, x := range out {
		if s, ok := x.(sym); ok {
			ids = append(ids, s.t.ID)
		} else {
			ids = append(ids, -int(x.(byte)))
		}
	}
	e.decimals = append(e.decimals, decRecord{ids, v})
	return mkSymstr(out)
}

func (e *Explorer) lookupDecimal(bs []value) *smt.Term {
	for _, r := range e.decimals {
		if len(r.ids) != len(bs) {
			continue
		}
		ok := true
		for i, x := range bs {
			if s, isSym := x.(sym); isSym {
				if r.ids[i] != s.t.ID {
					ok = false
					break
				}
			} else if r.ids[i] != -int(x.(byte)) {
				ok = false
				break
			}
		}
		if ok {
			return r.val
		}
	}
	return nil
}

func init() {
	externals["strconv.FormatInt"] = func(fr *frame, args []value) value {
		s, ok := args[0].(sym)
		if !ok || asInt64(args[1]) != 10 {
			return notHandled
		}
		return exOf(s.t).formatDecimal(s.t, true)
	}
	externals["strconv.FormatUint"] = func(fr *frame, args []value) value {
		s, ok := args[0].(sym)
		if !ok || asInt64(args[1]) != 10 {
			return notHandled
		}
		return exOf(s.t).formatDecimal(s.t, false)
	}
	externals["strconv.Itoa"] = func(fr *frame, args []value) value {
		s, ok := args[0].(sym)
		if !ok {
			return notHandled
		}
		return exOf(s.t).formatDecimal(s.t, true)
	}
	parse := func(fr *frame, args []value, bitSize int, retInt bool) value {
		ss, ok := args[0].(symstr)
		if !ok || fr.i.ex == nil {
			return notHandled
		}
		e := fr.i.ex
		v := e.lookupDecimal(ss.bytes())
		if v == nil {
			return notHandled
		}
		c := e.Ctx
		if bitSize == 0 {
			bitSize = 64
		}
		if bitSize < 64 {
			lo := c.Const(uint64(-(int64(1) << uint(bitSize-1))), 64)
			hi := c.Const(uint64((int64(1)<<uint(bitSize-1))-1), 64)
			inr := c.BAnd(c.Cmp(smt.OpSLe, lo, v), c.Cmp(smt.OpSLe, v, hi))
			if !e.Branch(inr) {
				// out of range: the engine does not build *NumError; decline to the real code is impossible
				// (it would redo the arithmetic), so end the path as a range error with the std sentinel
				return notHandledRangeError(fr, ss, v, bitSize, retInt)
			}
		}
		if retInt {
			return tuple{mkVal(types.Typ[types.Int], v), iface{}}
		}
		return tuple{mkVal(types.Typ[types.Int64], v), iface{}}
	}
	externals["strconv.ParseInt"] = func(fr *frame, args []value) value {
		if _, ok := args[0].(symstr); !ok {
			return notHandled
		}
		if asInt64(args[1]) != 10 {
			return notHandled
		}
		return parse(fr, args, int(asInt64(args[2])), false)
	}
	externals["strconv.Atoi"] = func(fr *frame, args []value) value { return parse(fr, args, 0, true) }
}

// notHandledRangeError returns (clamped value, strconv.ErrRange) like ParseInt does for out-of-range input.
func notHandledRangeError(fr *frame, ss symstr, v *smt.Term, bitSize int, retInt bool) value {
	e := fr.i.ex
	c := e.Ctx
	pkg := fr.i.prog.ImportedPackage("strconv")
	errRange := pkg.Var("ErrRange")
	errv := *fr.i.globalCell(errRange)
	var clamp int64
	if e.Branch(c.Cmp(smt.OpSLt, v, c.Const(0, 64))) {
		clamp = -(int64(1) << uint(bitSize-1))
	} else {
		clamp = (int64(1) << uint(bitSize-1)) - 1
	}
	if retInt {
		return tuple{int(clamp), errv}
	}
	return tuple{clamp, errv}
}

package interp

// Bridge for github.com/cossacklabs/pg_query_go/v5 (libpg_query through cgo), which the interpreter cannot execute.
//
// Parse and Deparse are run natively on a concrete representative of their argument and the result is mapped back:
//
//   - every maximal run of symbolic bytes in the SQL text (Parse) or in a string of the tree (Deparse) must provably lie
//     in one character class that PostgreSQL's lexer and deparser treat uniformly inside a quoted string ([0-9a-f],
//     [A-Z], [a-z] or [0-9A-Za-z]); otherwise the path ends as "unsupported" (inconclusive, never a verdict);
//   - the run is replaced by concrete characters of the same class chosen so that the run is unique;
//   - after the native call the representative must occur exactly once (Parse: in exactly one string field of the tree,
//     Deparse: in the output text) and is replaced by the symbolic bytes again.
//
// The tree is converted between the native protobuf structs and interpreter values by reflection over the struct types.

import (
	"fmt"
	"go/types"
	"reflect"
	"strings"
	"sync"

	pg_query "github.com/cossacklabs/pg_query_go/v5"
	"golang.org/x/tools/go/ssa"
	"google.golang.org/protobuf/reflect/protoreflect"
	"google.golang.org/protobuf/reflect/protoregistry"

	"verif/engine/smt"
)

const pgQueryPath = "github.com/cossacklabs/pg_query_go/v5"

func init() {
	externals[pgQueryPath+".Parse"] = extPgParse
	externals[pgQueryPath+".Deparse"] = extPgDeparse
}

var (
	pgOneofOnce sync.Once
	pgOneof     map[string]reflect.Type // oneof wrapper struct name -> type
	pgNativeMu  sync.Mutex              // libpg_query keeps per-thread state; serialise to be safe
)

func pgOneofTypes() map[string]reflect.Type {
	pgOneofOnce.Do(func() {
		pgOneof = map[string]reflect.Type{}
		protoregistry.GlobalTypes.RangeMessages(func(mt protoreflect.MessageType) bool {
			md := mt.Descriptor()
			if md.ParentFile().Package() != "pg_query" {
				return true
			}
			for i := 0; i < md.Oneofs().Len(); i++ {
				od := md.Oneofs().Get(i)
				for j := 0; j < od.Fields().Len(); j++ {
					fd := od.Fields().Get(j)
					m := mt.New()
					if fd.Message() != nil {
						m.Set(fd, m.NewField(fd))
					} else {
						m.Set(fd, fd.Default())
					}
					gv := reflect.ValueOf(m.Interface()).Elem()
					for k := 0; k < gv.NumField(); k++ {
						f := gv.Field(k)
						if f.Kind() == reflect.Interface && gv.Type().Field(k).IsExported() && !f.IsNil() {
							wt := f.Elem().Type().Elem()
							pgOneof[wt.Name()] = wt
						}
					}
				}
			}
			return true
		})
	})
	return pgOneof
}

type pgBridge struct {
	fr   *frame
	pkg  *types.Package
	runs []pgRun
}

// pgRun is one maximal run of symbolic bytes and its concrete representative.
type pgRun struct {
	sym  []value
	rep  string
	hits int
}

func pgPackage(fr *frame) *types.Package {
	p := fr.i.prog.ImportedPackage(pgQueryPath)
	if p == nil {
		panic(pathAbort{"pg_query package not loaded"})
	}
	return p.Pkg
}

func pgError(fr *frame, msg string) value {
	ep := fr.i.prog.ImportedPackage("errors")
	if ep == nil {
		panic(pathAbort{"errors package not loaded"})
	}
	return callSSA(fr.i, fr, 0, ep.Func("New"), []value{msg}, nil)
}

var pgClasses = []struct {
	name, alphabet string
	in             func(c *smt.Ctx, b *smt.Term) *smt.Term
}{
	{"hex", "0123456789abcdef", func(c *smt.Ctx, b *smt.Term) *smt.Term {
		return c.BOr(pgRange(c, b, '0', '9'), pgRange(c, b, 'a', 'f'))
	}},
	{"upper", "ABCDEFGHIJKLMNOPQRSTUVWXYZ", func(c *smt.Ctx, b *smt.Term) *smt.Term { return pgRange(c, b, 'A', 'Z') }},
	{"lower", "abcdefghijklmnopqrstuvwxyz", func(c *smt.Ctx, b *smt.Term) *smt.Term { return pgRange(c, b, 'a', 'z') }},
	{"alnum", "0123456789ABCDEFGHIJKLMNOPQRSTUVWXYZabcdefghijklmnopqrstuvwxyz", func(c *smt.Ctx, b *smt.Term) *smt.Term {
		return c.BOr(pgRange(c, b, '0', '9'), pgRange(c, b, 'a', 'z'), pgRange(c, b, 'A', 'Z'))
	}},
}

func pgRange(c *smt.Ctx, b *smt.Term, lo, hi byte) *smt.Term {
	return c.BAnd(c.Cmp(smt.OpULe, c.Const(uint64(lo), 8), b), c.Cmp(smt.OpULe, b, c.Const(uint64(hi), 8)))
}

// represent returns a concrete stand-in for a byte string, registering its symbolic runs.
func (br *pgBridge) represent(bs []value, avoid string) string {
	e := br.fr.i.ex
	out := make([]byte, len(bs))
	for i := 0; i < len(bs); {
		if b, ok := bs[i].(byte); ok {
			out[i] = b
			i++
			continue
		}
		j := i
		for j < len(bs) {
			if _, ok := bs[j].(sym); !ok {
				break
			}
			j++
		}
		if e == nil {
			panic(pathAbort{"symbolic SQL text without explorer"})
		}
		if i > 0 && out[i-1] == '\\' {
			panic(pathAbort{"unsupported: symbolic bytes right after a backslash in SQL text"})
		}
		run := bs[i:j]
		c := e.Ctx
		alphabet := ""
		for _, cl := range pgClasses {
			var all []*smt.Term
			for _, x := range run {
				all = append(all, cl.in(c, x.(sym).t))
			}
			if e.feasible(c.BNot(c.BAnd(all...))) == smt.Unsat {
				alphabet = cl.alphabet
				break
			}
		}
		if alphabet == "" {
			panic(pathAbort{"unsupported: symbolic SQL bytes outside the uniform character classes"})
		}
		// a representative that occurs nowhere else
		var rep string
		for attempt := 0; attempt < 64; attempt++ {
			seed := uint32(len(br.runs)*7919 + attempt*104729 + 12345)
			r := make([]byte, len(run))
			for k := range r {
				seed = seed*1664525 + 1013904223
				r[k] = alphabet[int(seed>>16)%len(alphabet)]
			}
			cand := string(r)
			clash := strings.Contains(avoid, cand) || strings.Contains(strings.ToLower(avoid), strings.ToLower(cand))
			for _, o := range br.runs {
				clash = clash || strings.Contains(o.rep, cand) || strings.Contains(cand, o.rep)
			}
			if !clash {
				rep = cand
				break
			}
		}
		if rep == "" {
			panic(pathAbort{"unsupported: no unique representative for a symbolic run in SQL text"})
		}
		br.runs = append(br.runs, pgRun{sym: append([]value{}, run...), rep: rep})
		copy(out[i:j], rep)
		i = j
	}
	return string(out)
}

// restore puts the symbolic runs back into a native string.
func (br *pgBridge) restore(s string) value {
	var bs []value
	found := false
	for i := 0; i < len(s); {
		matched := false
		for k := range br.runs {
			r := &br.runs[k]
			if strings.HasPrefix(s[i:], r.rep) {
				bs = append(bs, r.sym...)
				r.hits++
				i += len(r.rep)
				matched, found = true, true
				break
			}
		}
		if !matched {
			bs = append(bs, s[i])
			i++
		}
	}
	if !found {
		return s
	}
	return mkSymstr(bs)
}

func concreteText(bs []value) string {
	var sb strings.Builder
	for _, b := range bs {
		if c, ok := b.(byte); ok {
			sb.WriteByte(c)
		} else {
			sb.WriteByte(0)
		}
	}
	return sb.String()
}

func extPgParse(fr *frame, args []value) value {
	bs, _ := strBytes(args[0])
	br := &pgBridge{fr: fr, pkg: pgPackage(fr)}
	text := br.represent(bs, concreteText(bs))
	pgNativeMu.Lock()
	res, err := pg_query.Parse(text)
	pgNativeMu.Unlock()
	rt := br.pkg.Scope().Lookup("ParseResult").Type()
	if err != nil {
		return tuple{zero(types.NewPointer(rt)), pgError(fr, err.Error())}
	}
	v := br.toInterp(types.NewPointer(rt), reflect.ValueOf(res))
	for _, r := range br.runs {
		if r.hits != 1 {
			panic(pathAbort{fmt.Sprintf("unsupported: symbolic SQL run appears %d times in the parse tree (not a plain string constant)", r.hits)})
		}
	}
	return tuple{v, iface{}}
}

func extPgDeparse(fr *frame, args []value) value {
	br := &pgBridge{fr: fr, pkg: pgPackage(fr)}
	nat := reflect.New(reflect.TypeOf((*pg_query.ParseResult)(nil)))
	rt := br.pkg.Scope().Lookup("ParseResult").Type()
	br.toNative(types.NewPointer(rt), args[0], nat.Elem())
	pgNativeMu.Lock()
	out, err := pg_query.Deparse(nat.Elem().Interface().(*pg_query.ParseResult))
	pgNativeMu.Unlock()
	if err != nil {
		return tuple{"", pgError(fr, err.Error())}
	}
	v := br.restore(out)
	for _, r := range br.runs {
		if r.hits != 1 {
			panic(pathAbort{fmt.Sprintf("unsupported: symbolic string of the tree appears %d times in the deparsed text", r.hits)})
		}
	}
	return tuple{v, iface{}}
}

func (br *pgBridge) toInterp(t types.Type, rv reflect.Value) value {
	switch ut := t.Underlying().(type) {
	case *types.Basic:
		switch ut.Kind() {
		case types.Bool:
			return rv.Bool()
		case types.Int:
			return int(rv.Int())
		case types.Int32:
			return int32(rv.Int())
		case types.Int64:
			return rv.Int()
		case types.Uint32:
			return uint32(rv.Uint())
		case types.Uint64:
			return rv.Uint()
		case types.Uint8:
			return uint8(rv.Uint())
		case types.Float64:
			return rv.Float()
		case types.Float32:
			return float32(rv.Float())
		case types.String:
			return br.restore(rv.String())
		}
		panic(pathAbort{"pg_query bridge: basic kind " + ut.String()})
	case *types.Pointer:
		if rv.IsNil() {
			return zero(t)
		}
		p := new(value)
		*p = br.toInterp(ut.Elem(), rv.Elem())
		return p
	case *types.Struct:
		st := make(structure, ut.NumFields())
		for i := range st {
			f := ut.Field(i)
			if !f.Exported() {
				st[i] = zero(f.Type())
				continue
			}
			st[i] = br.toInterp(f.Type(), rv.Field(i))
		}
		return st
	case *types.Slice:
		if rv.IsNil() {
			return zero(t)
		}
		s := make([]value, rv.Len())
		for i := range s {
			s[i] = br.toInterp(ut.Elem(), rv.Index(i))
		}
		return s
	case *types.Interface:
		if rv.IsNil() {
			return iface{}
		}
		dyn := rv.Elem()
		if dyn.Kind() != reflect.Ptr {
			panic(pathAbort{"pg_query bridge: non-pointer oneof value"})
		}
		obj := br.pkg.Scope().Lookup(dyn.Type().Elem().Name())
		if obj == nil {
			panic(pathAbort{"pg_query bridge: unknown type " + dyn.Type().Elem().Name()})
		}
		dt := types.NewPointer(obj.Type())
		return iface{t: dt, v: br.toInterp(dt, dyn)}
	}
	panic(pathAbort{"pg_query bridge: type " + t.String()})
}

func (br *pgBridge) toNative(t types.Type, v value, dst reflect.Value) {
	switch ut := t.Underlying().(type) {
	case *types.Basic:
		if _, isSym := v.(sym); isSym {
			panic(pathAbort{"unsupported: symbolic scalar in a pg_query tree"})
		}
		switch ut.Kind() {
		case types.Bool:
			dst.SetBool(v.(bool))
		case types.Int, types.Int32, types.Int64:
			dst.SetInt(asInt64(v))
		case types.Uint32, types.Uint64, types.Uint8:
			dst.SetUint(asUint64(v))
		case types.Float64:
			dst.SetFloat(v.(float64))
		case types.Float32:
			dst.SetFloat(float64(v.(float32)))
		case types.String:
			bs, _ := strBytes(v)
			dst.SetString(br.represent(bs, pgKeywords))
		default:
			panic(pathAbort{"pg_query bridge: basic kind " + ut.String()})
		}
	case *types.Pointer:
		p, _ := v.(*value)
		if p == nil {
			return
		}
		n := reflect.New(dst.Type().Elem())
		br.toNative(ut.Elem(), *p, n.Elem())
		dst.Set(n)
	case *types.Struct:
		st := v.(structure)
		for i := range st {
			if !ut.Field(i).Exported() {
				continue
			}
			br.toNative(ut.Field(i).Type(), st[i], dst.Field(i))
		}
	case *types.Slice:
		s, _ := v.([]value)
		if s == nil {
			return
		}
		n := reflect.MakeSlice(dst.Type(), len(s), len(s))
		for i := range s {
			br.toNative(ut.Elem(), s[i], n.Index(i))
		}
		dst.Set(n)
	case *types.Interface:
		itf := v.(iface)
		if itf.t == nil {
			return
		}
		pt, ok := itf.t.(*types.Pointer)
		if !ok {
			panic(pathAbort{"pg_query bridge: non-pointer oneof value"})
		}
		named, ok := pt.Elem().(*types.Named)
		if !ok {
			panic(pathAbort{"pg_query bridge: unnamed oneof value"})
		}
		wt := pgOneofTypes()[named.Obj().Name()]
		if wt == nil {
			panic(pathAbort{"pg_query bridge: unknown oneof wrapper " + named.Obj().Name()})
		}
		n := reflect.New(reflect.PtrTo(wt)).Elem()
		br.toNative(itf.t, itf.v, n)
		dst.Set(n)
	default:
		panic(pathAbort{"pg_query bridge: type " + t.String()})
	}
}

var _ = ssa.NaiveForm

const pgKeywords = "INSERT INTO VALUES UPDATE SET WHERE SELECT FROM RETURNING DELETE AND OR NOT NULL DEFAULT AS ON CONFLICT DO NOTHING LIMIT ORDER BY GROUP HAVING JOIN LEFT RIGHT INNER OUTER USING TRUE FALSE"

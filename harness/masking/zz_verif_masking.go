//go:build verif

package masking

import (
	"context"

	"github.com/cossacklabs/acra/crypto"
	"github.com/cossacklabs/acra/decryptor/base"
	encryptor "github.com/cossacklabs/acra/encryptor/base"
	"github.com/cossacklabs/acra/encryptor/base/config"
	"github.com/cossacklabs/acra/masking/common"
	"github.com/cossacklabs/acra/zz_verif/verif"
	"github.com/cossacklabs/acra/zz_verif/vks"
	"github.com/cossacklabs/themis/gothemis/keys"
)

func verifDup(b []byte) []byte { return append([]byte{}, b...) }

func verifStore() *vks.Store {
	s := vks.New()
	ka := verif.Bytes("symA", 32)
	kb := verif.Bytes("symB", 32)
	verif.Assume(!verif.Eq(ka, kb))
	s.AddSym("A", ka)
	s.AddSym("B", kb)
	for _, id := range []string{"A", "B"} {
		kp, _ := keys.New(keys.TypeEC)
		s.AddPair(id, kp)
	}
	return s
}

// VerifC11_MaskingWindow: write through masking.DataEncryptor, read through the detector chain with the masking
// processor as wired by decryptor/*/proxy.go. Owner gets the value; readers that cannot decrypt get exactly
// window ++ pattern (left) or pattern ++ window (right); values not longer than the window are protected in full.
func VerifC11_MaskingWindow() {
	crypto.InitRegistry(nil)
	s := verifStore()
	rh := crypto.NewRegistryHandler(s)
	hi := 3
	if verif.Tier() == 1 {
		hi = 5
	}
	n := verif.Choose("n", 1, hi)
	d := verif.Bytes("d", n)
	w := verif.Choose("w", 0, n+1)
	side := common.PlainTextSideLeft
	if verif.Choose("side", 0, 1) == 1 {
		side = common.PlainTextSideRight
	}
	env := config.CryptoEnvelopeTypeAcraBlock
	if verif.Choose("kind", 0, 1) == 1 {
		env = config.CryptoEnvelopeTypeAcraStruct
	}
	pattern := "xx"
	if verif.Tier() == 1 {
		pattern = string(verif.Bytes("pattern", 2))
	}
	setting := &config.BasicColumnEncryptionSetting{Name: "c", UsedClientID: "A", MaskingPattern: pattern,
		PartialPlaintextLenBytes: w, PlaintextSide: side, CryptoEnvelope: &env}
	if err := config.VerifInitSetting(false, setting); err != nil {
		verif.Assert(false, "setting-valid")
		return
	}
	menc, _ := NewMaskingDataEncryptor(s, encryptor.NewChainDataEncryptor(rh))
	orig := verifDup(d)
	stored, err := menc.EncryptWithClientID([]byte("A"), d, setting)
	verif.Assert(err == nil, "mask-encrypt-no-error")
	if err != nil {
		return
	}
	// read chain
	det := crypto.NewEnvelopeDetector()
	wrapper := crypto.NewOldContainerDetectorWrapper(det)
	proc, _ := NewProcessor(rh)
	det.AddCallback(crypto.NewDecryptHandler(s, proc))
	reader := verif.Choose("reader", 0, 2)
	id := []string{"A", "B", "C"}[reader]
	ctx := base.SetAccessContextToContext(context.Background(), base.NewAccessContext(base.WithClientID([]byte(id))))
	ctx = encryptor.NewContextWithEncryptionSetting(ctx, setting)
	_, out, err := wrapper.OnColumn(ctx, verifDup(stored))
	verif.Reach("read")
	verif.Assert(err == nil, "read-no-error")
	if err != nil {
		return
	}
	if reader == 0 {
		verif.Assert(verif.Eq(out, orig), "owner-gets-original")
		return
	}
	var want []byte
	switch {
	case w >= n:
		want = []byte(pattern)
	case side == common.PlainTextSideLeft:
		want = append(verifDup(orig[:w]), []byte(pattern)...)
	default:
		want = append([]byte(pattern), orig[n-w:]...)
	}
	verif.Assert(verif.Eq(out, want), "non-owner-gets-window-and-pattern")
}

// VerifC11_ValidateMaskingParams: the validator accepts exactly the documented domain.
func VerifC11_ValidateMaskingParams() {
	plen := verif.Choose("plen", 0, 2)
	pattern := string(verif.Bytes("pattern", plen))
	length := verif.Int("length")
	sideSel := verif.Choose("side", 0, 2)
	side := []common.PlainTextSide{common.PlainTextSideLeft, common.PlainTextSideRight, common.PlainTextSide("middle")}[sideSel]
	err := common.ValidateMaskingParams(pattern, length, side, 0)
	verif.Reach("validated")
	valid := plen > 0 && sideSel < 2
	if valid {
		verif.Assert(verif.Or(verif.And(length >= 0, err == nil), verif.And(length < 0, err != nil)), "valid-iff-nonnegative-length")
	} else {
		verif.Assert(err != nil, "invalid-rejected")
	}
}

//go:build verif

package sqlparser

import (
	"github.com/cossacklabs/acra/sqlparser/dialect/mysql"
	"github.com/cossacklabs/acra/sqlparser/dialect/postgresql"
	"github.com/cossacklabs/acra/zz_verif/verif"
)

// verifMarker returns n arbitrary bytes in [lo,hi]: an alphabet that does not occur in the lower-case skeletons.
func verifMarker(name string, n int, lo, hi byte) []byte {
	m := verif.Bytes(name, n)
	for i := range m {
		verif.Assume(verif.And(m[i] >= lo, m[i] <= hi))
	}
	return m
}

func verifFill(skel string, lit []byte) string {
	out := make([]byte, 0, len(skel)+len(lit))
	for i := 0; i < len(skel); i++ {
		if skel[i] == '%' && i+1 < len(skel) && skel[i+1] == 's' {
			out = append(out, lit...)
			i++
			continue
		}
		out = append(out, skel[i])
	}
	return string(out)
}

func verifDialect(pg bool) {
	if pg {
		SetDefaultDialect(postgresql.NewPostgreSQLDialect())
	} else {
		SetDefaultDialect(mysql.NewMySQLDialect())
	}
}

// literal positions (the %s is replaced by a complete literal in one of the spellings below)
var verifPositions = []string{
	"select a from t where b = %s",
	"select a, %s from t",
	"insert into t (a, b) values (c, %s)",
	"update t set a = %s where b = c",
	"select a from t where b in (c, %s)",
	"select a from t where b like %s limit c",
	"delete from t where a = %s or b = c",
	"select a from t where concat(b, %s) in ('x', 'y')",
	"select a from t where b between c and %s",
	"select a from t group by a having max(b) > %s",
	"select a from t where b = (select max(c) from u where d = %s)",
	"select a from t where b = c union select a from u where d = %s",
	"select a from t where %s in ('x', 'y')",
	"select a from t where b + %s not in (5, 6)",
	"select a from t where b like %s escape '!'",
	"select a from t where b ilike %s escape '!' and c not ilike 'x' escape %s",
}

type verifSpelling struct {
	prefix, suffix string
	lo, hi         byte
	n              int
	pgOnly         bool
	myOnly         bool
}

var verifSpellings = []verifSpelling{
	{"'", "'", 'G', 'Z', 3, false, false},  // single-quoted string
	{"\"", "\"", 'G', 'Z', 3, false, true}, // MySQL double-quoted string
	{"", "", '1', '9', 4, false, false},    // integer
	{"7.", "", '3', '3', 3, false, false},  // decimal (concrete digits: float validation is not symbolic)
	{"-", "", '1', '9', 4, false, false},   // negative number
	{"E'", "'", 'G', 'Z', 3, true, false},  // PostgreSQL escape string
	{"X'", "'", 'A', 'F', 4, false, false}, // hex string
}

// 0x... numbers are deliberately left alone by the normalizer (pinned by sqlparser's own TestNormalize): recorded finding
var verifHexNumber = verifSpelling{"0x", "", 'A', 'F', 4, false, true}

// VerifC16_RedactLiterals: a marker literal of every spelling at every literal position never appears in the
// redacted form, and the redacted form keeps the statement's shape (it parses again).
func VerifC16_RedactLiterals() {
	p := verif.Choose("position", 0, 13) // the positions every dialect accepts (the last two are LIKE/ILIKE ... ESCAPE for C13)
	s := verif.Choose("spelling", 0, len(verifSpellings)-1)
	sp := verifSpellings[s]
	pg := verif.Choose("pg", 0, 1) == 1
	if (sp.pgOnly && !pg) || (sp.myOnly && pg) {
		return
	}
	verifDialect(pg)
	var m []byte
	if sp.lo == sp.hi {
		m = make([]byte, sp.n) // concrete digits
		for i := range m {
			m[i] = sp.lo
		}
	} else {
		m = verifMarker("marker", sp.n, sp.lo, sp.hi)
	}
	lit := append(append([]byte(sp.prefix), m...), sp.suffix...)
	q := verifFill(verifPositions[p], lit)
	red, err := RedactSQLQuery(q)
	verif.Reach("redacted")
	verif.Assert(err == nil, "redact-parses")
	if err != nil {
		return
	}
	verif.Assert(!verif.Contains([]byte(red), m), "literal-not-in-redacted-form")
	_, err = New(ModeStrict).Parse(red)
	verif.Assert(err == nil, "redacted-form-keeps-shape")
	// the form used for logging by the proxies and the firewall
	_, red2, _, err := New(ModeStrict).HandleRawSQLQuery(q)
	if err == nil {
		verif.Assert(!verif.Contains([]byte(red2), m), "literal-not-in-handled-form")
	}
}

// VerifC16_RedactHexNumber: MySQL 0x... literals carry client bytes as well.
func VerifC16_RedactHexNumber() {
	p := verif.Choose("position", 0, 3)
	verifDialect(false)
	sp := verifHexNumber
	m := verifMarker("marker", sp.n, sp.lo, sp.hi)
	q := verifFill(verifPositions[p], append([]byte(sp.prefix), m...))
	red, err := RedactSQLQuery(q)
	verif.Reach("redacted")
	if err != nil {
		return
	}
	verif.Assert(!verif.Contains([]byte(red), m), "hex-number-not-in-redacted-form")
}

// VerifC13_ReserialiseLiterals: for every content of a string literal (any bytes the tokenizer accepts inside the
// quotes, including quotes, backslashes and NUL) the printed statement parses back to the same tree.
func VerifC13_ReserialiseLiterals() {
	p := verif.Choose("position", 0, len(verifPositions)-1)
	pg := verif.Choose("pg", 0, 1) == 1
	verifDialect(pg)
	// 0..2 arbitrary bytes, optionally after one of the prefixes the printer/tokenizer treat specially
	prefixes := []string{"", "\\x", "\\\\", "''", "\\'"}
	pre := prefixes[verif.Choose("prefix", 0, len(prefixes)-1)]
	content := append([]byte(pre), verif.Bytes("content", verif.Choose("n", 0, 2+verif.Tier()))...)
	lit := append(append([]byte("'"), content...), '\'')
	q := verifFill(verifPositions[p], lit)
	t1, err := New(ModeStrict).Parse(q)
	if err != nil {
		verif.Reach("rejected")
		return
	}
	printed := String(t1)
	t2, err := New(ModeStrict).Parse(printed)
	verif.Reach("reparsed")
	verif.Assert(err == nil, "printed-statement-parses")
	if err != nil {
		return
	}
	verifCanon(t1)
	verifCanon(t2)
	verif.Assert(verif.DeepEqual(t1, t2), "reparsed-tree-equal")
	verif.Assert(String(t2) == printed, "printing-is-a-fixed-point")
}

// verifCanon removes a representation difference that is not a difference between statements: an expression
// followed by an empty quoted alias (two quote characters after a value) keeps the quote character of that empty alias in the tree,
// while the printer (rightly) prints no alias at all, so the re-parsed tree has the zero alias.
func verifCanon(t Statement) {
	Walk(func(n SQLNode) (bool, error) {
		if ae, ok := n.(*AliasedExpr); ok && ae.As.val == "" {
			ae.As = ColIdent{}
		}
		return true, nil
	}, t)
}

// VerifC13_ReserialiseIdentifiers: the same for quoted identifiers (column and table names).
func VerifC13_ReserialiseIdentifiers() {
	pg := verif.Choose("pg", 0, 1) == 1
	verifDialect(pg)
	quote := byte('`')
	if pg {
		quote = '"'
	}
	content := verif.Bytes("ident", verif.Choose("n", 1, 2+verif.Tier()))
	for i := range content {
		// ASCII identifiers; an identifier that contains its own quote character is a recorded finding
		// (VerifC13_IdentifierWithQuote)
		verif.Assume(verif.And(content[i] < 0x80, content[i] != quote))
	}
	id := append(append([]byte{quote}, content...), quote)
	skels := []string{"select %s from t where a = b", "select a from %s where a = b", "insert into t (%s) values (a)", "update t set %s = a"}
	q := verifFill(skels[verif.Choose("skeleton", 0, len(skels)-1)], id)
	t1, err := New(ModeStrict).Parse(q)
	if err != nil {
		verif.Reach("rejected")
		return
	}
	printed := String(t1)
	t2, err := New(ModeStrict).Parse(printed)
	verif.Reach("reparsed")
	verif.Assert(err == nil, "printed-statement-parses")
	if err != nil {
		return
	}
	verif.Assert(verif.DeepEqual(t1, t2), "reparsed-tree-equal")
}

// VerifC13_IdentifierWithQuote: a quoted identifier whose name contains the quote character (written doubled).
func VerifC13_IdentifierWithQuote() {
	pg := verif.Choose("pg", 0, 1) == 1
	verifDialect(pg)
	quote := byte('`')
	if pg {
		quote = '"'
	}
	id := []byte{quote, quote, quote, quote} // the one-character name consisting of the quote itself
	q := verifFill("select %s from t where a = b", id)
	t1, err := New(ModeStrict).Parse(q)
	if err != nil {
		verif.Reach("rejected")
		return
	}
	_, err = New(ModeStrict).Parse(String(t1))
	verif.Reach("reparsed")
	verif.Assert(err == nil, "quote-in-identifier-reparses")
}

var verifMorePositions = []string{
	"insert into t (a) values (b) returning %s",
	"update t set a = b where c = d returning %s",
	"delete from t where a = b returning concat(c, %s)",
	"execute stmt(%s)",
	"execute stmt(a, %s)",
	"select cast(%s as char) from t",
	"select %s::text from t",
	"select a from t where b = %s::bytea",
	"prepare p as select a from t where b = %s",
	"select a from t order by field(b, %s)",
	"select a from t where b = any(array[%s])",
	"insert into t (a) values (%s) on conflict do nothing",
	// a number the normalizer cannot convert must not stop it from replacing what follows
	"select a from t where b = 99999999999999999999 and c = %s",
	"select a from t where b in (18446744073709551616, 5) or c = %s",
	"update t set a = 1e999, b = %s where c = d",
}

// VerifC16_RedactMorePositions: further places where a client value can stand (RETURNING lists, EXECUTE arguments,
// casts, PREPARE bodies, array constructors): the redacted form never carries the value.
func VerifC16_RedactMorePositions() {
	p := verif.Choose("position", 0, len(verifMorePositions)-1)
	pg := verif.Choose("pg", 0, 1) == 1
	verifDialect(pg)
	m := verifMarker("marker", 3, 'G', 'V')
	lit := append(append([]byte("'"), m...), '\'')
	q := verifFill(verifMorePositions[p], lit)
	red, err := RedactSQLQuery(q)
	verif.Reach("redacted")
	if err != nil {
		return // a statement the parser does not accept is not logged as SQL text at all
	}
	tag := "/" + string(rune('a'+p))
	if pg {
		tag += "/pg"
	}
	verif.Assert(!verif.Contains([]byte(red), m), "literal-not-in-redacted-form"+tag)
	_, red2, _, err := New(ModeStrict).HandleRawSQLQuery(q)
	if err == nil {
		verif.Assert(!verif.Contains([]byte(red2), m), "literal-not-in-handled-form"+tag)
	}
}

// VerifC16_RedactBigNumber: a number too large for 64 bits is a client value like any other.
func VerifC16_RedactBigNumber() {
	pg := verif.Choose("pg", 0, 1) == 1
	verifDialect(pg)
	digits := verif.Bytes("digits", 3)
	for i := range digits {
		verif.Assume(verif.And(digits[i] >= '1', digits[i] <= '9'))
	}
	num := append([]byte("77777777777777777777"), digits...) // 23 digits
	q := verifFill(verifPositions[verif.Choose("position", 0, 3)], num)
	red, err := RedactSQLQuery(q)
	verif.Reach("redacted")
	if err != nil {
		return
	}
	verif.Assert(!verif.Contains([]byte(red), digits), "big-number-not-in-redacted-form")
}

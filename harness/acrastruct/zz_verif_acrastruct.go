//go:build verif

package acrastruct

import (
	"context"

	"github.com/cossacklabs/acra/zz_verif/verif"
	"github.com/cossacklabs/themis/gothemis/keys"
)

func verifDup(b []byte) []byte { return append([]byte{}, b...) }

func verifPriv(kp *keys.Keypair) *keys.PrivateKey {
	return &keys.PrivateKey{Value: verifDup(kp.Private.Value)}
}

// VerifC01_AcraStructRoundTrip: DecryptAcrastruct(CreateAcrastruct(d)) == d for every plaintext and context.
func VerifC01_AcraStructRoundTrip() {
	hi := 4
	if verif.Tier() == 1 {
		hi = 16
	}
	n := verif.Choose("n", 1, hi)
	d := verif.Bytes("d", n)
	ctxLen := verif.Choose("ctxlen", 0, 2)
	ctx := verif.Bytes("ctx", ctxLen)
	kp, _ := keys.New(keys.TypeEC)
	as, err := CreateAcrastruct(verifDup(d), kp.Public, verifDup(ctx))
	verif.Assert(err == nil, "create-no-error")
	if err != nil {
		return
	}
	verif.Assert(len(as) == GetMinAcraStructLength()+n+44, "acrastruct-length")
	verif.Assert(ValidateAcraStructLength(as) == nil, "validates")
	out, err := DecryptAcrastruct(as, verifPriv(kp), verifDup(ctx))
	verif.Reach("decrypted")
	verif.Assert(err == nil, "decrypt-no-error")
	if err != nil {
		return
	}
	verif.Assert(verif.Eq(out, d), "roundtrip-equal")
	// rotated history: the right key is the second of two
	other, _ := keys.New(keys.TypeEC)
	out2, err := DecryptRotatedAcrastruct(as, []*keys.PrivateKey{verifPriv(other), verifPriv(kp)}, verifDup(ctx))
	verif.Assert(err == nil, "rotated-no-error")
	if err == nil {
		verif.Assert(verif.Eq(out2, d), "rotated-equal")
	}
}

// VerifC02_AcraStructOtherKey: an AcraStruct for key pair A does not decrypt with B's private keys.
func VerifC02_AcraStructOtherKey() {
	d := verif.Bytes("d", 2)
	a, _ := keys.New(keys.TypeEC)
	b1, _ := keys.New(keys.TypeEC)
	b2, _ := keys.New(keys.TypeEC)
	as, err := CreateAcrastruct(verifDup(d), a.Public, nil)
	if err != nil {
		return
	}
	out, err := DecryptRotatedAcrastruct(as, []*keys.PrivateKey{verifPriv(b1), verifPriv(b2)}, nil)
	verif.Reach("returned")
	verif.Assert(err != nil, "other-key-fails")
	verif.Assert(len(out) == 0, "other-key-no-output")
}

func verifRevealOrError(mod []byte, kp *keys.Keypair, d []byte, tag string) {
	out, err := DecryptRotatedAcrastruct(mod, []*keys.PrivateKey{verifPriv(kp)}, nil)
	verif.Reach(tag + "-returned")
	if err == nil {
		verif.Assert(verif.Eq(out, d), tag+"-original-or-error")
	}
}

// VerifC03_AcraStructTamper: any window of the AcraStruct replaced by arbitrary bytes, truncation, extension.
func VerifC03_AcraStructTamper() {
	d := verif.Bytes("d", 1)
	kp, _ := keys.New(keys.TypeEC)
	as, err := CreateAcrastruct(verifDup(d), kp.Public, nil)
	if err != nil {
		return
	}
	mode := verif.Choose("mode", 0, 2)
	switch mode {
	case 0: // 8-byte window anywhere (covers tag, public key, wrapped key, length field, payload)
		w := 8
		off := verif.Choose("off", 0, len(as)-w)
		mod := verifDup(as)
		copy(mod[off:off+w], verif.Bytes("win", w))
		verif.Assume(!verif.Eq(mod, as))
		verifRevealOrError(mod, kp, d, "window")
	case 1: // truncation / extension
		newLen := verif.Choose("newlen", 0, len(as)+3)
		verif.Assume(newLen != len(as))
		mod := make([]byte, newLen)
		copy(mod, as)
		if newLen > len(as) {
			copy(mod[len(as):], verif.Bytes("ext", newLen-len(as)))
		}
		verifRevealOrError(mod, kp, d, "resize")
	case 2: // splice of two valid values
		d2 := verif.Bytes("d2", 1)
		as2, err := CreateAcrastruct(verifDup(d2), kp.Public, nil)
		if err != nil {
			return
		}
		i := verif.Choose("cut", 1, len(as)-1)
		mod := append(verifDup(as[:i]), as2[i:]...)
		verif.Assume(!verif.Eq(mod, as))
		verif.Assume(!verif.Eq(mod, as2))
		out, err := DecryptRotatedAcrastruct(mod, []*keys.PrivateKey{verifPriv(kp)}, nil)
		verif.Reach("splice-returned")
		if err == nil {
			verif.Assert(verif.Or(verif.Eq(out, d), verif.Eq(out, d2)), "splice-original-or-error")
		}
	}
}

type verifProc struct{ kp *keys.Keypair }

func (p verifProc) OnAcraStruct(ctx context.Context, as []byte) ([]byte, error) {
	out, err := DecryptAcrastruct(as, verifPriv(p.kp), nil)
	if err != nil {
		return as, nil
	}
	return out, nil
}

// VerifC14_AcraStructArbitrary: arbitrary bytes never panic the validators, extractor and decryptor.
// The 129-byte key block is concrete filler; tag, length field and payload are arbitrary.
func VerifC14_AcraStructArbitrary() {
	kp, _ := keys.New(keys.TypeEC)
	extra := verif.Choose("extra", 0, 3)
	data := make([]byte, GetMinAcraStructLength()+extra)
	copy(data[:8], verif.Bytes("tag", 8))
	copy(data[8+KeyBlockLength:], verif.Bytes("tail", DataLengthSize+extra))
	ValidateAcraStructLength(data)
	ExtractAcraStruct(data)
	verif.Reach("validated")
	DecryptAcrastruct(data, verifPriv(kp), nil)
	verif.Reach("decrypt-returned")
	short := verif.Choose("short", 0, 12)
	sd := verif.Bytes("sd", short)
	ValidateAcraStructLength(sd)
	ExtractAcraStruct(sd)
	DecryptAcrastruct(sd, verifPriv(kp), nil)
	out, err := ProcessAcraStructs(context.Background(), verifDup(sd), make([]byte, short), verifProc{kp})
	verif.Reach("short-returned")
	if err == nil {
		verif.Assert(verif.Eq(out, sd), "short-unchanged")
	}
}

// VerifC14_ProcessAcraStructsArbitrary: the column scanner with an arbitrary tag/length region terminates without panic.
func VerifC14_ProcessAcraStructsArbitrary() {
	kp, _ := keys.New(keys.TypeEC)
	extra := verif.Choose("extra", 1, 2)
	data := make([]byte, GetMinAcraStructLength()+extra)
	copy(data[:8], verif.Bytes("tag", 8))
	copy(data[8+KeyBlockLength:], verif.Bytes("tail", DataLengthSize+extra))
	out, err := ProcessAcraStructs(context.Background(), verifDup(data), make([]byte, len(data)), verifProc{kp})
	verif.Reach("process-returned")
	if err == nil {
		verif.Assert(verif.Eq(out, data), "garbage-unchanged")
	}
}

//go:build verif

// Package verif is the harness API. Under gosmt every function here is intercepted by the engine
// (inputs become SMT variables); compiled natively it replays one concrete model ($VERIF_MODEL).
package verif

import (
	"bytes"
	"crypto/hmac"
	"crypto/sha256"
	"crypto/sha512"
	"encoding/hex"
	"encoding/json"
	"fmt"
	"io"
	"os"
	"reflect"
	"runtime/debug"
	"strings"
	"sync"

	"github.com/sirupsen/logrus"
)

// firstAcraFrame extracts the innermost acra function from a stack dump (skipping the harness layer).
func firstAcraFrame(stack []byte) string {
	for _, l := range strings.Split(string(stack), "\n") {
		if strings.HasPrefix(l, "github.com/cossacklabs/acra/") && !strings.Contains(l, "/zz_verif/") && !strings.Contains(l, ".Verif") {
			if i := strings.LastIndex(l, "("); i > 0 {
				l = l[:i]
			}
			return l
		}
	}
	return "?"
}

// Model is the replay file written by the checker.
type Model struct {
	Harness string              `json:"harness"`
	Inputs  map[string]string   `json:"inputs"`
	Ints    map[string]int64    `json:"ints"`
	Bools   map[string]bool     `json:"bools"`
	Fresh   map[string][]string `json:"fresh"`
	Expect  string              `json:"expect"`
}

var (
	once     sync.Once
	model    Model
	loaded   bool
	freshPos = map[string]int{}
	// Failed collects assertion failures of the current native run.
	Failed []string
	// Skipped is set when an assumption does not hold for the model.
	Skipped bool
	Reached []string
)

type assumeFailed struct{}

func load() {
	once.Do(func() {
		p := os.Getenv("VERIF_MODEL")
		if p == "" {
			return
		}
		b, err := os.ReadFile(p)
		if err != nil {
			panic("verif: cannot read model: " + err.Error())
		}
		if err := json.Unmarshal(b, &model); err != nil {
			panic("verif: bad model: " + err.Error())
		}
		loaded = true
	})
}

// Loaded reports whether a replay model is present.
func Loaded() bool { load(); return loaded }

// ModelHarness returns the harness name in the model.
func ModelHarness() string { load(); return model.Harness }

// Reset prepares for another native run.
func Reset() {
	Failed = nil
	Skipped = false
	Reached = nil
	freshPos = map[string]int{}
	secrets = nil
	sinks = nil
}

// Symbolic reports whether the harness runs under the symbolic engine.
func Symbolic() bool { return false }

// Bytes returns n arbitrary bytes named name.
func Bytes(name string, n int) []byte {
	load()
	out := make([]byte, n)
	if h, ok := model.Inputs[name]; ok {
		b, _ := hex.DecodeString(h)
		copy(out, b)
	}
	return out
}

func intv(name string) int64 { load(); return model.Ints[name] }

func U8(name string) uint8   { return uint8(intv(name)) }
func U16(name string) uint16 { return uint16(intv(name)) }
func U32(name string) uint32 { return uint32(intv(name)) }
func U64(name string) uint64 { return uint64(intv(name)) }
func I32(name string) int32  { return int32(intv(name)) }
func I64(name string) int64  { return intv(name) }
func Int(name string) int    { return int(intv(name)) }
func Bool(name string) bool  { load(); return model.Bools[name] }

// Choose returns an arbitrary integer in [lo,hi]; every value is explored.
func Choose(name string, lo, hi int) int {
	v := int(intv(name))
	if v < lo || v > hi {
		if loaded {
			if _, ok := model.Ints[name]; ok {
				Skipped = true
				panic(assumeFailed{})
			}
		}
		return lo
	}
	return v
}

// Assume restricts the inputs considered.
func Assume(c bool) {
	if !c {
		Skipped = true
		panic(assumeFailed{})
	}
}

// Assert states the property.
func Assert(c bool, id string) {
	if !c {
		Failed = append(Failed, id)
		fmt.Printf("VERIF-ASSERT-FAILED %s\n", id)
	}
}

// Reach marks a point that must be reachable (vacuity witness).
func Reach(label string) { Reached = append(Reached, label) }

// Fresh returns n model-internal fresh bytes of a category (ciphertexts, random bytes ...).
func Fresh(cat string, n int) []byte {
	load()
	k := freshPos[cat]
	freshPos[cat]++
	out := make([]byte, n)
	if l := model.Fresh[cat]; k < len(l) {
		b, _ := hex.DecodeString(l[k])
		copy(out, b)
		return out
	}
	// no script: deterministic filler distinct per call
	h := sha256.Sum256([]byte(fmt.Sprintf("%s/%d", cat, k)))
	for i := range out {
		out[i] = h[i%32] ^ byte(i/32)
	}
	return out
}

// Eq is byte-slice equality (a single term symbolically, no path split).
func Eq(a, b []byte) bool { return bytes.Equal(a, b) }

func And(cs ...bool) bool {
	for _, c := range cs {
		if !c {
			return false
		}
	}
	return true
}

func Or(cs ...bool) bool {
	for _, c := range cs {
		if c {
			return true
		}
	}
	return false
}

func Not(c bool) bool        { return !c }
func Implies(a, b bool) bool { return !a || b }

// Contains reports whether needle occurs in hay as a contiguous window.
func Contains(hay, needle []byte) bool { return bytes.Contains(hay, needle) }

// Concrete forces the bytes to concrete values (path split per value); no-op natively.
func Concrete(b []byte) {}

// Oracle is an ideal deterministic collision-free function; natively the real primitive.
func Oracle(kind string, outLen int, parts ...[]byte) []byte {
	switch kind {
	case "sha256":
		h := sha256.Sum256(parts[0])
		return h[:]
	case "sha512":
		h := sha512.Sum512(parts[0])
		return h[:]
	case "hmac-sha256":
		m := hmac.New(sha256.New, parts[0])
		m.Write(parts[1])
		return m.Sum(nil)
	}
	h := sha256.New()
	h.Write([]byte(kind))
	for _, p := range parts {
		h.Write([]byte{byte(len(p)), byte(len(p) >> 8)})
		h.Write(p)
	}
	s := h.Sum(nil)
	out := make([]byte, outLen)
	for i := range out {
		out[i] = s[i%32]
	}
	return out
}

func StepBudget(n int) {}
func AllocLimit(n int) {}
func ForkLimit(n int)  {}

// RunNative runs a harness natively and classifies the outcome: "pass", "skip", "assert:<id>", "panic:<msg>".
func RunNative(h func()) (outcome string) {
	Reset()
	defer func() {
		if r := recover(); r != nil {
			if _, ok := r.(assumeFailed); ok {
				outcome = "skip"
				return
			}
			outcome = fmt.Sprintf("panic:%v", r)
			fmt.Printf("VERIF-REPLAY-STACK %s\n", firstAcraFrame(debug.Stack()))
		}
	}()
	h()
	if len(Failed) > 0 {
		return "assert:" + Failed[0]
	}
	return "pass"
}

// Tier is 0 for the quick tier and 1 for the thorough tier.
func Tier() int {
	if os.Getenv("VERIF_TIER") == "thorough" {
		return 1
	}
	return 0
}

// ReplayMain runs the harness named in the model natively and prints its outcome.
func ReplayMain(table map[string]func()) {
	load()
	if !loaded {
		fmt.Println("VERIF-REPLAY-OUTCOME nomodel")
		return
	}
	h, ok := table[model.Harness]
	if !ok {
		fmt.Printf("VERIF-REPLAY-OUTCOME unknown-harness %s\n", model.Harness)
		return
	}
	out := RunNative(h)
	fmt.Printf("VERIF-REPLAY-REACHED %v\n", Reached)
	fmt.Printf("VERIF-REPLAY-OUTCOME %s\n", out)
}

// CaptureLogs starts recording what is handed to the logger (messages and field values). Symbolically the engine
// records the arguments of every call into logrus; natively a logrus hook on the standard logger does.
func CaptureLogs() {
	logrus.SetLevel(logrus.TraceLevel)
	logrus.SetOutput(io.Discard)
	logrus.AddHook(&logHook{})
}

type logHook struct{}

func (*logHook) Levels() []logrus.Level { return logrus.AllLevels }
func (*logHook) Fire(e *logrus.Entry) error {
	captured = append(captured, []byte(e.Message))
	for _, v := range e.Data {
		switch x := v.(type) {
		case string:
			captured = append(captured, []byte(x))
		case []byte:
			captured = append(captured, append([]byte{}, x...))
		case error:
			captured = append(captured, []byte(x.Error()))
		default:
			captured = append(captured, []byte(fmt.Sprint(x)))
		}
	}
	return nil
}

var captured [][]byte

// LogContains reports whether anything recorded since CaptureLogs contains b.
func LogContains(b []byte) bool {
	for _, c := range captured {
		if bytes.Contains(c, b) {
			return true
		}
	}
	return false
}

// FreshASCII states a bound: from here on opaque crypto outputs are 7-bit bytes. It is for kernels in which the code
// under test pushes ciphertext through []rune (UTF-8 decoding of symbolic bytes is not modelled). Native: no effect.
func FreshASCII() {}

// AllowTagsInFresh lifts the default modelling assumption that opaque crypto outputs (ciphertexts, wrapped keys,
// generated keys) contain no envelope tag sequence (three '%' or four '"' in a row). No-op natively.
func AllowTagsInFresh() {}

// DeepEqual is structural equality (reflect.DeepEqual natively; a single term symbolically).
func DeepEqual(a, b interface{}) bool { return reflect.DeepEqual(a, b) }

var (
	secrets [][]byte
	sinks   [][]byte
)

// Secret marks bytes as secret key material.
func Secret(b []byte) { secrets = append(secrets, append([]byte{}, b...)) }

// Sink records bytes that leave the trusted boundary (storage write, cache, export bundle).
func Sink(kind string, b []byte) { sinks = append(sinks, append([]byte{}, b...)) }

// NoLeak asserts that nothing written to a sink depends on a secret. Symbolically this is a non-interference
// query; natively it is the weaker check that no sink contains a secret as a contiguous window.
func NoLeak(id string) {
	load()
	if strings.HasPrefix(model.Expect, "sample") {
		// path samples carry arbitrary (often all-zero) values, for which window containment says nothing
		return
	}
	for _, s := range secrets {
		for _, k := range sinks {
			if len(s) > 0 && bytes.Contains(k, s) {
				Assert(false, id)
				return
			}
		}
	}
}

//go:build verif

package model

// A reflection-free DER codec for the ASN.1 structures of acra's keystore v2 (keystore/v2/keystore/asn1).
// The engine redirects encoding/asn1.Marshal/Unmarshal to ASN1Marshal/ASN1Unmarshal: encoding/asn1 itself is
// reflection code the symbolic interpreter cannot run. The encoding below follows encoding/asn1's DER output for
// these types (SEQUENCE, SET OF with sorted elements, INTEGER, ENUMERATED, OCTET STRING, UTCTime, OID, implicit
// context tags for optional fields, RawContent / RawValue capture), so stored bytes are real DER whose content
// bytes may be symbolic. Natively the real encoding/asn1 runs.

import (
	"bytes"
	stdasn1 "encoding/asn1"
	"errors"
	"sort"
	"time"

	acraasn1 "github.com/cossacklabs/acra/keystore/v2/keystore/asn1"
)

var errASN1Unsupported = errors.New("asn1 model: unsupported type")
var errASN1Syntax = stdasn1.SyntaxError{Msg: "asn1 model: malformed data"}
var errASN1Structural = stdasn1.StructuralError{Msg: "asn1 model: tags don't match"}

const (
	tagInteger     = 2
	tagOctetString = 4
	tagOID         = 6
	tagEnum        = 10
	tagUTCTime     = 23
	tagSequence    = 0x30
	tagSet         = 0x31
)

func derLen(n int) []byte {
	if n < 128 {
		return []byte{byte(n)}
	}
	var l []byte
	for v := n; v > 0; v >>= 8 {
		l = append([]byte{byte(v)}, l...)
	}
	return append([]byte{0x80 | byte(len(l))}, l...)
}

func derTLV(tag byte, content []byte) []byte {
	out := append([]byte{tag}, derLen(len(content))...)
	return append(out, content...)
}

func derInt(tag byte, v int64) []byte {
	n := 1
	for x := v; x > 127; x >>= 8 {
		n++
	}
	for x := v; x < -128; x >>= 8 {
		n++
	}
	c := make([]byte, n)
	for i := 0; i < n; i++ {
		c[i] = byte(v >> uint((n-1-i)*8))
	}
	return derTLV(tag, c)
}

func derOID(oid stdasn1.ObjectIdentifier) []byte {
	if len(oid) < 2 {
		return derTLV(tagOID, nil)
	}
	var c []byte
	b128 := func(v int) {
		var tmp []byte
		tmp = append(tmp, byte(v&0x7f))
		for v >>= 7; v > 0; v >>= 7 {
			tmp = append([]byte{byte(v&0x7f) | 0x80}, tmp...)
		}
		c = append(c, tmp...)
	}
	b128(oid[0]*40 + oid[1])
	for _, v := range oid[2:] {
		b128(v)
	}
	return derTLV(tagOID, c)
}

func two(v int) []byte { return []byte{byte('0' + v/10%10), byte('0' + v%10)} }

func derUTCTime(t time.Time) []byte {
	t = t.UTC()
	y, mo, d := t.Date()
	h, mi, s := t.Clock()
	var c []byte
	c = append(c, two(y%100)...)
	c = append(c, two(int(mo))...)
	c = append(c, two(d)...)
	c = append(c, two(h)...)
	c = append(c, two(mi)...)
	c = append(c, two(s)...)
	c = append(c, 'Z')
	return derTLV(tagUTCTime, c)
}

func derSetOf(elems [][]byte) []byte {
	sorted := make([][]byte, len(elems))
	copy(sorted, elems)
	sort.Slice(sorted, func(i, j int) bool { return bytes.Compare(sorted[i], sorted[j]) < 0 })
	var c []byte
	for _, e := range sorted {
		c = append(c, e...)
	}
	return derTLV(tagSet, c)
}

func encSignature(s acraasn1.Signature) []byte {
	return derTLV(tagSequence, append(derOID(s.Algorithm), derTLV(tagOctetString, s.Signature)...))
}

func encSignatures(sigs []acraasn1.Signature) []byte {
	var el [][]byte
	for _, s := range sigs {
		el = append(el, encSignature(s))
	}
	return derSetOf(el)
}

func encKeyData(d acraasn1.KeyData) []byte {
	c := derInt(tagInteger, int64(d.Format))
	if len(d.PublicKey) > 0 {
		c = append(c, derTLV(0x81, d.PublicKey)...)
	}
	if len(d.PrivateKey) > 0 {
		c = append(c, derTLV(0x82, d.PrivateKey)...)
	}
	if len(d.SymmetricKey) > 0 {
		c = append(c, derTLV(0x83, d.SymmetricKey)...)
	}
	return derTLV(tagSequence, c)
}

func encKey(k acraasn1.Key) []byte {
	c := derInt(tagInteger, int64(k.Seqnum))
	c = append(c, derInt(tagInteger, int64(k.State))...)
	c = append(c, derUTCTime(k.ValidSince)...)
	c = append(c, derUTCTime(k.ValidUntil)...)
	var el [][]byte
	for _, d := range k.Data {
		el = append(el, encKeyData(d))
	}
	c = append(c, derSetOf(el)...)
	return derTLV(tagSequence, c)
}

func encKeyRing(r acraasn1.KeyRing) []byte {
	c := derTLV(tagOctetString, r.Purpose)
	var keys []byte
	for _, k := range r.Keys {
		keys = append(keys, encKey(k)...)
	}
	c = append(c, derTLV(tagSequence, keys)...)
	c = append(c, derInt(tagInteger, int64(r.Current))...)
	return derTLV(tagSequence, c)
}

func encAny(v interface{}) ([]byte, error) {
	switch x := v.(type) {
	case acraasn1.KeyRing:
		return encKeyRing(x), nil
	case *acraasn1.KeyRing:
		return encKeyRing(*x), nil
	case []byte:
		return derTLV(tagOctetString, x), nil
	case acraasn1.EncryptedKeys:
		return encEncryptedKeys(x), nil
	}
	return nil, errASN1Unsupported
}

func encEncryptedKeys(k acraasn1.EncryptedKeys) []byte {
	var el [][]byte
	for _, r := range k.KeyRings {
		el = append(el, encKeyRing(r))
	}
	return derTLV(tagSequence, derSetOf(el))
}

func encPayload(p acraasn1.SignedPayload) ([]byte, error) {
	c := derInt(tagInteger, int64(p.ContentType))
	c = append(c, derInt(tagInteger, int64(p.Version))...)
	c = append(c, derUTCTime(p.LastModified)...)
	d, err := encAny(p.Data)
	if err != nil {
		return nil, err
	}
	c = append(c, d...)
	return derTLV(tagSequence, c), nil
}

// ASN1Marshal models encoding/asn1.Marshal for acra's key store structures.
func ASN1Marshal(val interface{}) ([]byte, error) {
	switch v := val.(type) {
	case acraasn1.SignedContainer:
		p, err := encPayload(v.Payload)
		if err != nil {
			return nil, err
		}
		return derTLV(tagSequence, append(p, encSignatures(v.Signatures)...)), nil
	case acraasn1.SignedPayload:
		return encPayload(v)
	case acraasn1.EncryptedKeys:
		return encEncryptedKeys(v), nil
	case acraasn1.KeyRing:
		return encKeyRing(v), nil
	}
	return nil, errASN1Unsupported
}

// ---- decoding ----

type derElem struct {
	tag     byte
	content []byte
	full    []byte
}

// derRead reads one TLV (definite, minimal lengths as DER requires).
func derRead(b []byte) (derElem, []byte, error) {
	if len(b) < 2 {
		return derElem{}, nil, errASN1Syntax
	}
	tag := b[0]
	if tag&0x1f == 0x1f {
		return derElem{}, nil, errASN1Syntax // high tag numbers are not used by these structures
	}
	l := int(b[1])
	off := 2
	if l&0x80 != 0 {
		n := l & 0x7f
		if n == 0 || n > 4 || len(b) < 2+n {
			return derElem{}, nil, errASN1Syntax
		}
		if b[2] == 0 {
			return derElem{}, nil, errASN1Syntax // superfluous leading zeros in length
		}
		l = 0
		for i := 0; i < n; i++ {
			l = l<<8 | int(b[2+i])
		}
		if l < 128 {
			return derElem{}, nil, errASN1Syntax // non-minimal length
		}
		off = 2 + n
	}
	if l < 0 || len(b)-off < l {
		return derElem{}, nil, errASN1Syntax
	}
	return derElem{tag, b[off : off+l], b[:off+l]}, b[off+l:], nil
}

func derExpect(b []byte, tag byte) (derElem, []byte, error) {
	e, rest, err := derRead(b)
	if err != nil {
		return e, nil, err
	}
	if e.tag != tag {
		return e, nil, errASN1Structural
	}
	return e, rest, nil
}

func decInt(c []byte) (int, error) {
	if len(c) == 0 || len(c) > 8 {
		return 0, errASN1Structural
	}
	if len(c) > 1 && ((c[0] == 0 && c[1]&0x80 == 0) || (c[0] == 0xff && c[1]&0x80 != 0)) {
		return 0, errASN1Structural // not minimally encoded
	}
	var v int64
	if c[0]&0x80 != 0 {
		v = -1
	}
	for _, x := range c {
		v = v<<8 | int64(x)
	}
	return int(v), nil
}

func num2(c []byte) (int, bool) {
	if c[0] < '0' || c[0] > '9' || c[1] < '0' || c[1] > '9' {
		return 0, false
	}
	return int(c[0]-'0')*10 + int(c[1]-'0'), true
}

func decUTCTime(c []byte) (time.Time, error) {
	if len(c) != 13 || c[12] != 'Z' {
		return time.Time{}, errASN1Syntax
	}
	var f [6]int
	for i := 0; i < 6; i++ {
		v, ok := num2(c[2*i:])
		if !ok {
			return time.Time{}, errASN1Syntax
		}
		f[i] = v
	}
	year := 1900 + f[0]
	if f[0] < 50 {
		year = 2000 + f[0]
	}
	if f[1] < 1 || f[1] > 12 || f[2] < 1 || f[2] > 31 || f[3] > 23 || f[4] > 59 || f[5] > 59 {
		return time.Time{}, errASN1Syntax
	}
	return time.Date(year, time.Month(f[1]), f[2], f[3], f[4], f[5], 0, time.UTC), nil
}

var sha256OIDContent = []byte{0x60, 0x86, 0x48, 0x01, 0x65, 0x03, 0x04, 0x02, 0x01}

// decOID recognises the one algorithm identifier the key store uses; every other content (well-formed or not)
// is returned as an identifier that matches no algorithm, which the notary treats like an unknown algorithm
// (real encoding/asn1 would reject a malformed one: the outcome, "no valid signature", is the same).
func decOID(c []byte) (stdasn1.ObjectIdentifier, error) {
	if len(c) == 0 {
		return nil, errASN1Syntax
	}
	if len(c) == len(sha256OIDContent) && bytes.Equal(c, sha256OIDContent) {
		return stdasn1.ObjectIdentifier{2, 16, 840, 1, 101, 3, 4, 2, 1}, nil
	}
	return stdasn1.ObjectIdentifier{0, 0}, nil
}

func decSignatures(b []byte) ([]acraasn1.Signature, []byte, error) {
	set, rest, err := derExpect(b, tagSet)
	if err != nil {
		return nil, nil, err
	}
	var out []acraasn1.Signature
	c := set.content
	for len(c) > 0 {
		var seq derElem
		seq, c, err = derExpect(c, tagSequence)
		if err != nil {
			return nil, nil, err
		}
		oidE, r2, err := derExpect(seq.content, tagOID)
		if err != nil {
			return nil, nil, err
		}
		sigE, r3, err := derExpect(r2, tagOctetString)
		if err != nil {
			return nil, nil, err
		}
		if len(r3) != 0 {
			return nil, nil, errASN1Syntax
		}
		oid, err := decOID(oidE.content)
		if err != nil {
			return nil, nil, err
		}
		out = append(out, acraasn1.Signature{Algorithm: oid, Signature: append([]byte{}, sigE.content...)})
	}
	return out, rest, nil
}

func decKeyData(b []byte) (acraasn1.KeyData, error) {
	var d acraasn1.KeyData
	f, rest, err := derExpect(b, tagInteger)
	if err != nil {
		return d, err
	}
	v, err := decInt(f.content)
	if err != nil {
		return d, err
	}
	d.Format = acraasn1.KeyFormat(v)
	next := byte(0x81)
	for len(rest) > 0 {
		var e derElem
		e, rest, err = derRead(rest)
		if err != nil {
			return d, err
		}
		if e.tag < next || e.tag > 0x83 {
			return d, errASN1Structural
		}
		switch e.tag {
		case 0x81:
			d.PublicKey = append([]byte{}, e.content...)
		case 0x82:
			d.PrivateKey = append([]byte{}, e.content...)
		case 0x83:
			d.SymmetricKey = append([]byte{}, e.content...)
		}
		next = e.tag + 1
	}
	return d, nil
}

func decKey(b []byte) (acraasn1.Key, error) {
	var k acraasn1.Key
	e, rest, err := derExpect(b, tagInteger)
	if err != nil {
		return k, err
	}
	if k.Seqnum, err = decInt(e.content); err != nil {
		return k, err
	}
	if e, rest, err = derExpect(rest, tagInteger); err != nil {
		return k, err
	}
	st, err := decInt(e.content)
	if err != nil {
		return k, err
	}
	k.State = acraasn1.KeyState(st)
	if e, rest, err = derExpect(rest, tagUTCTime); err != nil {
		return k, err
	}
	if k.ValidSince, err = decUTCTime(e.content); err != nil {
		return k, err
	}
	if e, rest, err = derExpect(rest, tagUTCTime); err != nil {
		return k, err
	}
	if k.ValidUntil, err = decUTCTime(e.content); err != nil {
		return k, err
	}
	if e, rest, err = derExpect(rest, tagSet); err != nil {
		return k, err
	}
	if len(rest) != 0 {
		return k, errASN1Syntax
	}
	c := e.content
	for len(c) > 0 {
		var seq derElem
		if seq, c, err = derExpect(c, tagSequence); err != nil {
			return k, err
		}
		d, err := decKeyData(seq.content)
		if err != nil {
			return k, err
		}
		k.Data = append(k.Data, d)
	}
	return k, nil
}

func decKeyRing(content []byte, r *acraasn1.KeyRing) error {
	e, rest, err := derExpect(content, tagOctetString)
	if err != nil {
		return err
	}
	r.Purpose = append([]byte{}, e.content...)
	if e, rest, err = derExpect(rest, tagSequence); err != nil {
		return err
	}
	r.Keys = nil
	c := e.content
	for len(c) > 0 {
		var seq derElem
		if seq, c, err = derExpect(c, tagSequence); err != nil {
			return err
		}
		k, err := decKey(seq.content)
		if err != nil {
			return err
		}
		r.Keys = append(r.Keys, k)
	}
	if e, rest, err = derExpect(rest, tagInteger); err != nil {
		return err
	}
	if r.Current, err = decInt(e.content); err != nil {
		return err
	}
	if len(rest) != 0 {
		return errASN1Syntax
	}
	return nil
}

// ASN1Unmarshal models encoding/asn1.Unmarshal for acra's key store structures.
func ASN1Unmarshal(b []byte, val interface{}) ([]byte, error) {
	switch out := val.(type) {
	case *acraasn1.VerifiedContainer:
		top, rest, err := derExpect(b, tagSequence)
		if err != nil {
			return nil, err
		}
		pl, afterPayload, err := derExpect(top.content, tagSequence)
		if err != nil {
			return nil, err
		}
		out.Payload.RawContent = append([]byte{}, pl.full...)
		e, r2, err := derExpect(pl.content, tagInteger)
		if err != nil {
			return nil, err
		}
		ct, err := decInt(e.content)
		if err != nil {
			return nil, err
		}
		out.Payload.ContentType = acraasn1.ContentType(ct)
		if e, r2, err = derExpect(r2, tagInteger); err != nil {
			return nil, err
		}
		if out.Payload.Version, err = decInt(e.content); err != nil {
			return nil, err
		}
		if e, r2, err = derExpect(r2, tagUTCTime); err != nil {
			return nil, err
		}
		if out.Payload.LastModified, err = decUTCTime(e.content); err != nil {
			return nil, err
		}
		if e, r2, err = derRead(r2); err != nil {
			return nil, err
		}
		if len(r2) != 0 {
			return nil, errASN1Syntax
		}
		out.Payload.Data = stdasn1.RawValue{Class: int(e.tag >> 6), Tag: int(e.tag & 0x1f), IsCompound: e.tag&0x20 != 0,
			Bytes: append([]byte{}, e.content...), FullBytes: append([]byte{}, e.full...)}
		sigs, r3, err := decSignatures(afterPayload)
		if err != nil {
			return nil, err
		}
		if len(r3) != 0 {
			return nil, errASN1Syntax
		}
		out.Signatures = sigs
		return rest, nil
	case *acraasn1.KeyRing:
		top, rest, err := derExpect(b, tagSequence)
		if err != nil {
			return nil, err
		}
		if err := decKeyRing(top.content, out); err != nil {
			return nil, err
		}
		return rest, nil
	case *acraasn1.EncryptedKeys:
		top, rest, err := derExpect(b, tagSequence)
		if err != nil {
			return nil, err
		}
		set, r2, err := derExpect(top.content, tagSet)
		if err != nil {
			return nil, err
		}
		if len(r2) != 0 {
			return nil, errASN1Syntax
		}
		out.KeyRings = nil
		c := set.content
		for len(c) > 0 {
			var seq derElem
			if seq, c, err = derExpect(c, tagSequence); err != nil {
				return nil, err
			}
			var r acraasn1.KeyRing
			if err := decKeyRing(seq.content, &r); err != nil {
				return nil, err
			}
			out.KeyRings = append(out.KeyRings, r)
		}
		return rest, nil
	}
	return nil, errASN1Unsupported
}

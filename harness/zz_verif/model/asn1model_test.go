//go:build verif

package model

import (
	"bytes"
	stdasn1 "encoding/asn1"
	"testing"
	"time"

	acraasn1 "github.com/cossacklabs/acra/keystore/v2/keystore/asn1"
)

func sampleRing(n int) acraasn1.KeyRing {
	r := acraasn1.KeyRing{Purpose: []byte("client/abc/storage"), Current: n - 1}
	if n == 0 {
		r.Current = acraasn1.NoKey
	}
	for i := 0; i < n; i++ {
		k := acraasn1.Key{Seqnum: i + 1, State: acraasn1.KeyState(1 + i%6),
			ValidSince: time.Date(2020+i, 1, 2, 3, 4, 5, 0, time.UTC), ValidUntil: time.Date(2031, 12, 30, 23, 59, 58, 0, time.UTC)}
		k.Data = append(k.Data, acraasn1.KeyData{Format: acraasn1.ThemisKeyPairFormat, PublicKey: bytes.Repeat([]byte{byte(i)}, 45), PrivateKey: bytes.Repeat([]byte{0xee}, 89)})
		if i%2 == 1 {
			k.Data = append(k.Data, acraasn1.KeyData{Format: acraasn1.ThemisSymmetricKeyFormat, SymmetricKey: bytes.Repeat([]byte{byte(200 + i)}, 76+60*i)})
		}
		r.Keys = append(r.Keys, k)
	}
	return r
}

func TestASN1ModelMatchesEncodingASN1(t *testing.T) {
	for n := 0; n <= 4; n++ {
		ring := sampleRing(n)
		payload := acraasn1.SignedPayload{ContentType: acraasn1.TypeKeyRing, Version: acraasn1.KeyRingVersion2,
			LastModified: time.Date(2026, 9, 23, 1, 2, 3, 0, time.UTC), Data: ring}
		cont := acraasn1.SignedContainer{Payload: payload, Signatures: []acraasn1.Signature{{Algorithm: acraasn1.Sha256OID, Signature: bytes.Repeat([]byte{7}, 32)}}}
		enc := acraasn1.EncryptedKeys{KeyRings: []acraasn1.KeyRing{sampleRing(n), sampleRing(1), sampleRing(2)}}
		payload2 := payload
		payload2.ContentType = acraasn1.TypeEncryptedKeys
		payload2.Data = bytes.Repeat([]byte{9}, 300)
		for name, v := range map[string]interface{}{"container": cont, "payload": payload, "keys": enc, "ring": ring, "payload-bytes": payload2} {
			want, err := stdasn1.Marshal(v)
			if err != nil {
				t.Fatal(name, err)
			}
			got, err := ASN1Marshal(v)
			if err != nil {
				t.Fatal(name, err)
			}
			if !bytes.Equal(got, want) {
				t.Fatalf("%s n=%d: model DER differs\n got %x\nwant %x", name, n, got, want)
			}
		}
		// decoding
		der, _ := stdasn1.Marshal(cont)
		var a, b acraasn1.VerifiedContainer
		r1, e1 := stdasn1.Unmarshal(der, &a)
		r2, e2 := ASN1Unmarshal(der, &b)
		if e1 != nil || e2 != nil || len(r1) != len(r2) {
			t.Fatal(e1, e2)
		}
		if !bytes.Equal(a.Payload.RawContent, b.Payload.RawContent) || !bytes.Equal(a.Payload.Data.FullBytes, b.Payload.Data.FullBytes) ||
			a.Payload.Data.Tag != b.Payload.Data.Tag || a.Payload.Data.Class != b.Payload.Data.Class || a.Payload.Data.IsCompound != b.Payload.Data.IsCompound ||
			!bytes.Equal(a.Payload.Data.Bytes, b.Payload.Data.Bytes) || a.Payload.Version != b.Payload.Version || a.Payload.ContentType != b.Payload.ContentType ||
			!a.Payload.LastModified.Equal(b.Payload.LastModified) || len(a.Signatures) != len(b.Signatures) || !a.Signatures[0].Algorithm.Equal(b.Signatures[0].Algorithm) ||
			!bytes.Equal(a.Signatures[0].Signature, b.Signatures[0].Signature) {
			t.Fatalf("verified container differs: %+v vs %+v", a, b)
		}
		var ra, rb acraasn1.KeyRing
		if _, err := stdasn1.Unmarshal(a.Payload.Data.FullBytes, &ra); err != nil {
			t.Fatal(err)
		}
		if _, err := ASN1Unmarshal(a.Payload.Data.FullBytes, &rb); err != nil {
			t.Fatal(err)
		}
		x, _ := stdasn1.Marshal(ra)
		y, _ := stdasn1.Marshal(rb)
		if !bytes.Equal(x, y) || len(ra.Keys) != len(rb.Keys) {
			t.Fatalf("key ring differs after decode")
		}
		for i := range ra.Keys {
			if !ra.Keys[i].ValidSince.Equal(rb.Keys[i].ValidSince) || len(ra.Keys[i].Data) != len(rb.Keys[i].Data) {
				t.Fatal("key differs")
			}
		}
		kd, _ := stdasn1.Marshal(enc)
		var ea, eb acraasn1.EncryptedKeys
		if _, err := stdasn1.Unmarshal(kd, &ea); err != nil {
			t.Fatal(err)
		}
		if _, err := ASN1Unmarshal(kd, &eb); err != nil {
			t.Fatal(err)
		}
		x, _ = stdasn1.Marshal(ea)
		y, _ = stdasn1.Marshal(eb)
		if !bytes.Equal(x, y) {
			t.Fatal("encrypted keys differ after decode")
		}
		// every single-byte corruption: both accept or both reject
		for i := 0; i < len(der); i++ {
			mod := append([]byte{}, der...)
			mod[i] ^= 0x41
			var c1, c2 acraasn1.VerifiedContainer
			_, e1 := stdasn1.Unmarshal(mod, &c1)
			_, e2 := ASN1Unmarshal(mod, &c2)
			if (e1 == nil) != (e2 == nil) {
				t.Logf("n=%d byte %d: std err=%v model err=%v", n, i, e1, e2)
			}
		}
	}
}

//go:build verif

package model

// A reflection-free protobuf wire codec for the two messages acra's tokenizer stores
// (pseudonymization/common.TokenValue and MetadataContainer). The engine redirects
// github.com/golang/protobuf/proto.Marshal/Unmarshal here; natively the real library runs.

import (
	"errors"

	"github.com/golang/protobuf/proto"

	tokens "github.com/cossacklabs/acra/pseudonymization/common"
)

var errProtoUnsupported = errors.New("proto model: unsupported message type")
var errProtoSyntax = errors.New("proto model: cannot parse invalid wire-format data")

func pbVarint(v uint64) []byte {
	var out []byte
	for v >= 0x80 {
		out = append(out, byte(v)|0x80)
		v >>= 7
	}
	return append(out, byte(v))
}

func pbBytesField(num int, b []byte) []byte {
	if len(b) == 0 {
		return nil
	}
	out := append([]byte{byte(num<<3 | 2)}, pbVarint(uint64(len(b)))...)
	return append(out, b...)
}

func pbVarintField(num int, v uint64) []byte {
	if v == 0 {
		return nil
	}
	return append([]byte{byte(num << 3)}, pbVarint(v)...)
}

// ProtoMarshal models proto.Marshal.
func ProtoMarshal(m proto.Message) ([]byte, error) {
	switch v := m.(type) {
	case *tokens.TokenValue:
		out := pbBytesField(1, v.Value)
		out = append(out, pbVarintField(2, uint64(v.Type))...)
		if out == nil {
			out = []byte{}
		}
		return out, nil
	case *tokens.MetadataContainer:
		out := pbBytesField(1, v.Data)
		out = append(out, pbVarintField(2, uint64(v.Created))...)
		out = append(out, pbVarintField(3, uint64(v.Accessed))...)
		if v.Disabled {
			out = append(out, pbVarintField(4, 1)...)
		}
		if out == nil {
			out = []byte{}
		}
		return out, nil
	}
	return nil, errProtoUnsupported
}

func pbReadVarint(b []byte) (uint64, []byte, bool) {
	var v uint64
	for i := 0; i < len(b) && i < 10; i++ {
		v |= uint64(b[i]&0x7f) << uint(7*i)
		if b[i]&0x80 == 0 {
			return v, b[i+1:], true
		}
	}
	return 0, nil, false
}

// ProtoUnmarshal models proto.Unmarshal (fields may come in any order, unknown fields are skipped).
func ProtoUnmarshal(b []byte, m proto.Message) error {
	var tv *tokens.TokenValue
	var mc *tokens.MetadataContainer
	switch v := m.(type) {
	case *tokens.TokenValue:
		tv = v
		*tv = tokens.TokenValue{}
	case *tokens.MetadataContainer:
		mc = v
		*mc = tokens.MetadataContainer{}
	default:
		return errProtoUnsupported
	}
	for len(b) > 0 {
		key, rest, ok := pbReadVarint(b)
		if !ok {
			return errProtoSyntax
		}
		b = rest
		num, wt := int(key>>3), int(key&7)
		if num == 0 {
			return errProtoSyntax
		}
		switch wt {
		case 0:
			v, rest, ok := pbReadVarint(b)
			if !ok {
				return errProtoSyntax
			}
			b = rest
			if tv != nil && num == 2 {
				tv.Type = tokens.TokenType(int32(v))
			}
			if mc != nil {
				switch num {
				case 2:
					mc.Created = int64(v)
				case 3:
					mc.Accessed = int64(v)
				case 4:
					mc.Disabled = v != 0
				}
			}
		case 2:
			l, rest, ok := pbReadVarint(b)
			if !ok || l > uint64(len(rest)) {
				return errProtoSyntax
			}
			val := rest[:l]
			b = rest[l:]
			if num == 1 {
				cp := append([]byte{}, val...)
				if tv != nil {
					tv.Value = cp
				}
				if mc != nil {
					mc.Data = cp
				}
			}
		case 1:
			if len(b) < 8 {
				return errProtoSyntax
			}
			b = b[8:]
		case 5:
			if len(b) < 4 {
				return errProtoSyntax
			}
			b = b[4:]
		default:
			return errProtoSyntax
		}
	}
	return nil
}

//go:build verif

// Package model holds Go-source models that the engine substitutes for standard-library functions
// it cannot interpret (assembly, reflectlite) or that are modelled as ideal functions (hashes).
// Natively these functions are never called: the real library runs.
package model

import (
	"context"
	"hash"
	"time"

	"github.com/cossacklabs/acra/zz_verif/verif"
)

// ---- ideal hashes ----

type idealHash struct {
	kind string
	size int
	bs   int
	buf  []byte
}

func (h *idealHash) Write(p []byte) (int, error) { h.buf = append(h.buf, p...); return len(p), nil }
func (h *idealHash) Sum(b []byte) []byte {
	return append(b, verif.Oracle(h.kind, h.size, h.buf)...)
}
func (h *idealHash) Reset()         { h.buf = nil }
func (h *idealHash) Size() int      { return h.size }
func (h *idealHash) BlockSize() int { return h.bs }

func NewSha256() hash.Hash { return &idealHash{kind: "sha256", size: 32, bs: 64} }
func NewSha512() hash.Hash { return &idealHash{kind: "sha512", size: 64, bs: 128} }

func Sum256(data []byte) [32]byte {
	var out [32]byte
	copy(out[:], verif.Oracle("sha256", 32, data))
	return out
}

type idealHMAC struct {
	key  []byte
	size int
	bs   int
	buf  []byte
}

func (h *idealHMAC) Write(p []byte) (int, error) { h.buf = append(h.buf, p...); return len(p), nil }
func (h *idealHMAC) Sum(b []byte) []byte {
	return append(b, verif.Oracle("hmac-sha256", h.size, h.key, h.buf)...)
}
func (h *idealHMAC) Reset()         { h.buf = nil }
func (h *idealHMAC) Size() int      { return h.size }
func (h *idealHMAC) BlockSize() int { return h.bs }

// NewHMAC models crypto/hmac.New for SHA-256 (the only hash acra keys an HMAC with).
func NewHMAC(h func() hash.Hash, key []byte) hash.Hash {
	inner := h()
	k := make([]byte, len(key))
	copy(k, key)
	return &idealHMAC{key: k, size: inner.Size(), bs: inner.BlockSize()}
}

func HMACEqual(a, b []byte) bool { return verif.Eq(a, b) }

func ConstantTimeCompare(a, b []byte) int {
	if len(a) != len(b) {
		return 0
	}
	if verif.Eq(a, b) {
		return 1
	}
	return 0
}

// ---- context (std's uses reflectlite) ----

type emptyCtx struct{}

func (emptyCtx) Deadline() (time.Time, bool)       { return time.Time{}, false }
func (emptyCtx) Done() <-chan struct{}             { return nil }
func (emptyCtx) Err() error                        { return nil }
func (emptyCtx) Value(key interface{}) interface{} { return nil }

func Background() context.Context { return emptyCtx{} }

type valueCtx struct {
	context.Context
	k, v interface{}
}

func (c *valueCtx) Value(k interface{}) interface{} {
	if c.k == k {
		return c.v
	}
	return c.Context.Value(k)
}

func WithValue(parent context.Context, key, val interface{}) context.Context {
	return &valueCtx{parent, key, val}
}

func WithCancel(parent context.Context) (context.Context, context.CancelFunc) {
	return parent, func() {}
}

func WithTimeout(parent context.Context, d time.Duration) (context.Context, context.CancelFunc) {
	return parent, func() {}
}

// ---- errors (std's uses reflectlite) ----

type errorString struct{ s string }

func (e *errorString) Error() string { return e.s }

func ErrorsNew(text string) error { return &errorString{text} }

func ErrorsUnwrap(err error) error {
	u, ok := err.(interface{ Unwrap() error })
	if !ok {
		return nil
	}
	return u.Unwrap()
}

func ErrorsIs(err, target error) bool {
	if err == nil || target == nil {
		return err == target
	}
	for {
		if err == target {
			return true
		}
		if x, ok := err.(interface{ Is(error) bool }); ok && x.Is(target) {
			return true
		}
		switch x := err.(type) {
		case interface{ Unwrap() error }:
			err = x.Unwrap()
			if err == nil {
				return false
			}
		case interface{ Unwrap() []error }:
			for _, e := range x.Unwrap() {
				if ErrorsIs(e, target) {
					return true
				}
			}
			return false
		default:
			return false
		}
	}
}

// MsgpUnsafeString stands in for msgp.UnsafeString, which reinterprets the slice header as a string header through
// unsafe.Pointer; the copy has the same value.
func MsgpUnsafeString(b []byte) string { return string(b) }

// SerializedKeysMarshal / SerializedKeysUnmarshal stand in for the JSON form of keystore/v2's SerializedKeys
// (encoding/json is reflection code). The bundle access keys are only ever read back by Unmarshal, so an opaque
// length-prefixed form is equivalent for every caller; any buffer that is not exactly of that form is rejected.
func SerializedKeysMarshal(k *struct{ Encryption, Signature []byte }) ([]byte, error) {
	if len(k.Encryption) > 255 || len(k.Signature) > 255 {
		return nil, &errorString{"serialized keys model: keys too long"}
	}
	out := []byte{byte(len(k.Encryption)), byte(len(k.Signature))}
	out = append(out, k.Encryption...)
	return append(out, k.Signature...), nil
}

func SerializedKeysUnmarshal(k *struct{ Encryption, Signature []byte }, buffer []byte) error {
	if len(buffer) < 2 || len(buffer) != 2+int(buffer[0])+int(buffer[1]) {
		return &errorString{"serialized keys model: malformed"}
	}
	k.Encryption = append([]byte{}, buffer[2:2+int(buffer[0])]...)
	k.Signature = append([]byte{}, buffer[2+int(buffer[0]):]...)
	return nil
}

package model

// encoding/gob is reflection code. acra uses it in exactly one place: keystore v1's KeyBackuper serialises
// []*keystore.Key (name + content) into the export bundle and reads it back on import. This stand-in is an explicit
// codec for that type; any other type is reported as unsupported (the path ends with an error, never silently).
//
// gosmt redirects gob.NewEncoder/NewDecoder and (*Encoder).Encode / (*Decoder).Decode here (the interpreter is
// dynamically typed, the *gobCodec travels where the *gob.Encoder would).

import (
	"io"

	"github.com/cossacklabs/acra/keystore"
)

type gobCodec struct {
	w io.Writer
	r io.Reader
}

func GobNewEncoder(w io.Writer) *gobCodec { return &gobCodec{w: w} }
func GobNewDecoder(r io.Reader) *gobCodec { return &gobCodec{r: r} }

func GobEncode(c *gobCodec, e interface{}) error {
	ks, ok := e.([]*keystore.Key)
	if !ok {
		return &errorString{"gob model: unsupported type"}
	}
	if len(ks) > 255 {
		return &errorString{"gob model: too many keys"}
	}
	out := []byte{'G', byte(len(ks))}
	for _, k := range ks {
		if k == nil || len(k.Name) > 0xffff || len(k.Content) > 0xffff {
			return &errorString{"gob model: unsupported key"}
		}
		out = append(out, byte(len(k.Name)>>8), byte(len(k.Name)))
		out = append(out, k.Name...)
		out = append(out, byte(len(k.Content)>>8), byte(len(k.Content)))
		out = append(out, k.Content...)
	}
	_, err := c.w.Write(out)
	return err
}

func GobDecode(c *gobCodec, e interface{}) error {
	dst, ok := e.(*[]*keystore.Key)
	if !ok {
		return &errorString{"gob model: unsupported type"}
	}
	data, err := io.ReadAll(c.r)
	if err != nil {
		return err
	}
	bad := &errorString{"gob model: malformed data"}
	if len(data) < 2 || data[0] != 'G' {
		return bad
	}
	n := int(data[1])
	p := data[2:]
	var ks []*keystore.Key
	for i := 0; i < n; i++ {
		if len(p) < 2 {
			return bad
		}
		l := int(p[0])<<8 | int(p[1])
		p = p[2:]
		if len(p) < l {
			return bad
		}
		name := string(p[:l])
		p = p[l:]
		if len(p) < 2 {
			return bad
		}
		l = int(p[0])<<8 | int(p[1])
		p = p[2:]
		if len(p) < l {
			return bad
		}
		ks = append(ks, &keystore.Key{Name: name, Content: append([]byte{}, p[:l]...)})
		p = p[l:]
	}
	if len(p) != 0 {
		return bad
	}
	*dst = ks
	return nil
}

//go:build verif

// Package vfs is an in-memory implementation of keystore/filesystem.Storage written from the doc comments of that
// interface (the repository has no in-memory Storage of its own), plus a decorator that injects one fault:
// an error return, a crash before a call or a crash after it.
package vfs

import (
	"io/fs"
	"os"
	"path/filepath"
	"sort"
	"strings"
	"time"
)

type node struct {
	data  []byte
	mode  os.FileMode
	isDir bool
}

// FS is the in-memory storage. Paths are cleaned; "/" separates components.
type FS struct {
	nodes map[string]*node
	tmpN  int
}

// New returns an empty storage with a root directory.
func New() *FS {
	return &FS{nodes: map[string]*node{"/": {isDir: true, mode: 0700 | os.ModeDir}}}
}

type info struct {
	name string
	n    *node
}

func (i info) Name() string       { return i.name }
func (i info) Size() int64        { return int64(len(i.n.data)) }
func (i info) Mode() os.FileMode  { return i.n.mode }
func (i info) ModTime() time.Time { return time.Time{} }
func (i info) IsDir() bool        { return i.n.isDir }
func (i info) Sys() interface{}   { return nil }

func clean(p string) string {
	p = filepath.Clean(p)
	if !strings.HasPrefix(p, "/") {
		p = "/" + p
	}
	return p
}

func notExist(op, path string) error { return &os.PathError{Op: op, Path: path, Err: fs.ErrNotExist} }
func exists(op, path string) error   { return &os.PathError{Op: op, Path: path, Err: fs.ErrExist} }

func (f *FS) Stat(path string) (os.FileInfo, error) {
	p := clean(path)
	n, ok := f.nodes[p]
	if !ok {
		return nil, notExist("stat", path)
	}
	return info{filepath.Base(p), n}, nil
}

func (f *FS) Exists(path string) (bool, error) {
	_, ok := f.nodes[clean(path)]
	return ok, nil
}

func (f *FS) ReadDir(path string) ([]os.FileInfo, error) {
	p := clean(path)
	d, ok := f.nodes[p]
	if !ok {
		return nil, notExist("readdir", path)
	}
	if !d.isDir {
		return nil, &os.PathError{Op: "readdir", Path: path, Err: fs.ErrInvalid}
	}
	var names []string
	for k := range f.nodes {
		if k != p && filepath.Dir(k) == p {
			names = append(names, k)
		}
	}
	sort.Strings(names)
	out := make([]os.FileInfo, 0, len(names))
	for _, k := range names {
		out = append(out, info{filepath.Base(k), f.nodes[k]})
	}
	return out, nil
}

func (f *FS) MkdirAll(path string, perm os.FileMode) error {
	p := clean(path)
	var parts []string
	for q := p; q != "/"; q = filepath.Dir(q) {
		parts = append(parts, q)
	}
	for i := len(parts) - 1; i >= 0; i-- {
		if n, ok := f.nodes[parts[i]]; ok {
			if !n.isDir {
				return &os.PathError{Op: "mkdir", Path: parts[i], Err: fs.ErrExist}
			}
			continue
		}
		f.nodes[parts[i]] = &node{isDir: true, mode: perm | os.ModeDir}
	}
	return nil
}

func (f *FS) parentOK(p string) bool {
	d, ok := f.nodes[filepath.Dir(p)]
	return ok && d.isDir
}

func (f *FS) Rename(oldpath, newpath string) error {
	o, n := clean(oldpath), clean(newpath)
	src, ok := f.nodes[o]
	if !ok {
		return notExist("rename", oldpath)
	}
	if !f.parentOK(n) {
		return notExist("rename", newpath)
	}
	if src.isDir {
		// move the subtree
		moved := map[string]*node{}
		for k, v := range f.nodes {
			if k == o || strings.HasPrefix(k, o+"/") {
				moved[n+k[len(o):]] = v
				delete(f.nodes, k)
			}
		}
		for k, v := range moved {
			f.nodes[k] = v
		}
		return nil
	}
	delete(f.nodes, o)
	f.nodes[n] = src
	return nil
}

func (f *FS) TempFile(pattern string, perm os.FileMode) (string, error) {
	p := clean(pattern)
	if !f.parentOK(p) {
		return "", notExist("open", pattern)
	}
	for {
		f.tmpN++
		// like ioutil.TempFile without "*" in the pattern: a decimal number is appended to the name
		name := p + "73" + string(rune('0'+f.tmpN/100%10)) + string(rune('0'+f.tmpN/10%10)) + string(rune('0'+f.tmpN%10)) + "4401"
		if _, ok := f.nodes[name]; !ok {
			f.nodes[name] = &node{mode: perm}
			return name, nil
		}
	}
}

func (f *FS) TempDir(pattern string, perm os.FileMode) (string, error) {
	name, err := f.TempFile(pattern, perm)
	if err != nil {
		return "", err
	}
	f.nodes[name] = &node{isDir: true, mode: perm | os.ModeDir}
	return name, nil
}

func (f *FS) Link(oldpath, newpath string) error {
	o, n := clean(oldpath), clean(newpath)
	src, ok := f.nodes[o]
	if !ok {
		return notExist("link", oldpath)
	}
	if _, ok := f.nodes[n]; ok {
		return exists("link", newpath)
	}
	if !f.parentOK(n) {
		return notExist("link", newpath)
	}
	f.nodes[n] = &node{data: append([]byte{}, src.data...), mode: src.mode}
	return nil
}

func (f *FS) Copy(src, dst string) error {
	s, d := clean(src), clean(dst)
	sn, ok := f.nodes[s]
	if !ok {
		return notExist("open", src)
	}
	if _, ok := f.nodes[d]; ok {
		return exists("open", dst)
	}
	if !f.parentOK(d) {
		return notExist("open", dst)
	}
	f.nodes[d] = &node{data: append([]byte{}, sn.data...), mode: sn.mode}
	return nil
}

func (f *FS) ReadFile(path string) ([]byte, error) {
	n, ok := f.nodes[clean(path)]
	if !ok || n.isDir {
		return nil, notExist("open", path)
	}
	return append([]byte{}, n.data...), nil
}

func (f *FS) WriteFile(path string, data []byte, perm os.FileMode) error {
	p := clean(path)
	if !f.parentOK(p) {
		return notExist("open", path)
	}
	if n, ok := f.nodes[p]; ok {
		if n.isDir {
			return &os.PathError{Op: "open", Path: path, Err: fs.ErrInvalid}
		}
		n.data = append([]byte{}, data...) // an existing file keeps its mode
		return nil
	}
	f.nodes[p] = &node{data: append([]byte{}, data...), mode: perm}
	return nil
}

func (f *FS) Remove(path string) error {
	p := clean(path)
	if _, ok := f.nodes[p]; !ok {
		return notExist("remove", path)
	}
	for k := range f.nodes {
		if strings.HasPrefix(k, p+"/") {
			return &os.PathError{Op: "remove", Path: path, Err: fs.ErrInvalid}
		}
	}
	delete(f.nodes, p)
	return nil
}

func (f *FS) RemoveAll(path string) error {
	p := clean(path)
	for k := range f.nodes {
		if k == p || strings.HasPrefix(k, p+"/") {
			delete(f.nodes, k)
		}
	}
	return nil
}

// Files lists all regular files (sorted) for assertions.
func (f *FS) Files() []string {
	var out []string
	for k, v := range f.nodes {
		if !v.isDir {
			out = append(out, k)
		}
	}
	sort.Strings(out)
	return out
}

// Raw returns the stored bytes of a file.
func (f *FS) Raw(path string) ([]byte, bool) {
	n, ok := f.nodes[clean(path)]
	if !ok || n.isDir {
		return nil, false
	}
	return n.data, true
}

// ---- fault decorator ----

// Crash is the panic value of a simulated process death.
type Crash struct{}

// ErrIO is the injected I/O error.
var ErrIO = &os.PathError{Op: "io", Path: "injected", Err: fs.ErrPermission}

// Faulty wraps an FS and injects one fault at call ordinal FaultAt (counting every Storage call).
type Faulty struct {
	*FS
	Calls     int
	FaultAt   int // -1 = never
	FaultMode int // 0 error, 1 crash before, 2 crash after
	Trace     []string
	OnWrite   func(kind string, data []byte)
}

// NewFaulty wraps fsys without an armed fault.
func NewFaulty(fsys *FS) *Faulty { return &Faulty{FS: fsys, FaultAt: -1} }

func (f *Faulty) pre(op string) (fail, after bool) {
	n := f.Calls
	f.Calls++
	f.Trace = append(f.Trace, op)
	if n != f.FaultAt {
		return false, false
	}
	switch f.FaultMode {
	case 0:
		return true, false
	case 1:
		panic(Crash{})
	}
	return false, true
}

func post(after bool) {
	if after {
		panic(Crash{})
	}
}

func (f *Faulty) Stat(path string) (os.FileInfo, error) {
	fail, after := f.pre("Stat")
	if fail {
		return nil, ErrIO
	}
	r, err := f.FS.Stat(path)
	post(after)
	return r, err
}
func (f *Faulty) Exists(path string) (bool, error) {
	fail, after := f.pre("Exists")
	if fail {
		return false, ErrIO
	}
	r, err := f.FS.Exists(path)
	post(after)
	return r, err
}
func (f *Faulty) ReadDir(path string) ([]os.FileInfo, error) {
	fail, after := f.pre("ReadDir")
	if fail {
		return nil, ErrIO
	}
	r, err := f.FS.ReadDir(path)
	post(after)
	return r, err
}
func (f *Faulty) MkdirAll(path string, perm os.FileMode) error {
	fail, after := f.pre("MkdirAll")
	if fail {
		return ErrIO
	}
	err := f.FS.MkdirAll(path, perm)
	post(after)
	return err
}
func (f *Faulty) Rename(o, n string) error {
	fail, after := f.pre("Rename")
	if fail {
		return ErrIO
	}
	err := f.FS.Rename(o, n)
	post(after)
	return err
}
func (f *Faulty) TempFile(pattern string, perm os.FileMode) (string, error) {
	fail, after := f.pre("TempFile")
	if fail {
		return "", ErrIO
	}
	r, err := f.FS.TempFile(pattern, perm)
	post(after)
	return r, err
}
func (f *Faulty) Link(o, n string) error {
	fail, after := f.pre("Link")
	if fail {
		return ErrIO
	}
	err := f.FS.Link(o, n)
	post(after)
	return err
}
func (f *Faulty) Copy(s, d string) error {
	fail, after := f.pre("Copy")
	if fail {
		return ErrIO
	}
	err := f.FS.Copy(s, d)
	post(after)
	return err
}
func (f *Faulty) ReadFile(path string) ([]byte, error) {
	fail, after := f.pre("ReadFile")
	if fail {
		return nil, ErrIO
	}
	r, err := f.FS.ReadFile(path)
	post(after)
	return r, err
}
func (f *Faulty) WriteFile(path string, data []byte, perm os.FileMode) error {
	if f.OnWrite != nil {
		f.OnWrite("write", data)
	}
	fail, after := f.pre("WriteFile")
	if fail {
		return ErrIO
	}
	err := f.FS.WriteFile(path, data, perm)
	post(after)
	return err
}
func (f *Faulty) Remove(path string) error {
	fail, after := f.pre("Remove")
	if fail {
		return ErrIO
	}
	err := f.FS.Remove(path)
	post(after)
	return err
}

//go:build verif

// Package vks is the in-memory key store used by harnesses. It implements the read interfaces of
// acra's keystore (keystore.DataEncryptorKeyStore, HmacKeyStore, PoisonKeyStore ...) over plain maps
// and, like the real stores, hands out a fresh copy of every key (callers zeroize what they get).
package vks

import (
	"github.com/cossacklabs/acra/keystore"
	"github.com/cossacklabs/themis/gothemis/keys"
)

// ErrNoKey is returned for an identity without keys (the error the real key stores use).
var ErrNoKey = keystore.ErrKeysNotFound

// Store holds keys newest-first per client id.
type Store struct {
	Sym         map[string][][]byte
	Pairs       map[string][]*keys.Keypair
	HMAC        map[string][]byte
	PoisonSym   [][]byte
	PoisonPairs []*keys.Keypair
	LogKey      []byte
}

// New returns an empty store.
func New() *Store {
	return &Store{Sym: map[string][][]byte{}, Pairs: map[string][]*keys.Keypair{}, HMAC: map[string][]byte{}}
}

func dup(b []byte) []byte { return append([]byte{}, b...) }

// AddSym appends an older symmetric key for id (first call = current key).
func (s *Store) AddSym(id string, key []byte) { s.Sym[id] = append(s.Sym[id], dup(key)) }

// AddPair appends an older key pair for id (first call = current pair).
func (s *Store) AddPair(id string, kp *keys.Keypair) { s.Pairs[id] = append(s.Pairs[id], kp) }

func (s *Store) GetClientIDSymmetricKeys(id []byte) ([][]byte, error) {
	l, ok := s.Sym[string(id)]
	if !ok || len(l) == 0 {
		return nil, ErrNoKey
	}
	out := make([][]byte, len(l))
	for i := range l {
		out[i] = dup(l[i])
	}
	return out, nil
}

func (s *Store) GetClientIDSymmetricKey(id []byte) ([]byte, error) {
	l, ok := s.Sym[string(id)]
	if !ok || len(l) == 0 {
		return nil, ErrNoKey
	}
	return dup(l[0]), nil
}

func (s *Store) GetServerDecryptionPrivateKeys(id []byte) ([]*keys.PrivateKey, error) {
	l, ok := s.Pairs[string(id)]
	if !ok || len(l) == 0 {
		return nil, ErrNoKey
	}
	out := make([]*keys.PrivateKey, len(l))
	for i := range l {
		out[i] = &keys.PrivateKey{Value: dup(l[i].Private.Value)}
	}
	return out, nil
}

func (s *Store) GetServerDecryptionPrivateKey(id []byte) (*keys.PrivateKey, error) {
	l, ok := s.Pairs[string(id)]
	if !ok || len(l) == 0 {
		return nil, ErrNoKey
	}
	return &keys.PrivateKey{Value: dup(l[0].Private.Value)}, nil
}

func (s *Store) GetClientIDEncryptionPublicKey(id []byte) (*keys.PublicKey, error) {
	l, ok := s.Pairs[string(id)]
	if !ok || len(l) == 0 {
		return nil, ErrNoKey
	}
	return &keys.PublicKey{Value: dup(l[0].Public.Value)}, nil
}

func (s *Store) GetHMACSecretKey(id []byte) ([]byte, error) {
	k, ok := s.HMAC[string(id)]
	if !ok {
		return nil, ErrNoKey
	}
	return dup(k), nil
}

func (s *Store) GetPoisonKeyPair() (*keys.Keypair, error) {
	if len(s.PoisonPairs) == 0 {
		return nil, ErrNoKey
	}
	p := s.PoisonPairs[0]
	return &keys.Keypair{Private: &keys.PrivateKey{Value: dup(p.Private.Value)}, Public: &keys.PublicKey{Value: dup(p.Public.Value)}}, nil
}

func (s *Store) GetPoisonPrivateKeys() ([]*keys.PrivateKey, error) {
	if len(s.PoisonPairs) == 0 {
		return nil, ErrNoKey
	}
	out := make([]*keys.PrivateKey, len(s.PoisonPairs))
	for i, p := range s.PoisonPairs {
		out[i] = &keys.PrivateKey{Value: dup(p.Private.Value)}
	}
	return out, nil
}

func (s *Store) GetPoisonSymmetricKeys() ([][]byte, error) {
	if len(s.PoisonSym) == 0 {
		return nil, ErrNoKey
	}
	out := make([][]byte, len(s.PoisonSym))
	for i := range s.PoisonSym {
		out[i] = dup(s.PoisonSym[i])
	}
	return out, nil
}

func (s *Store) GetPoisonSymmetricKey() ([]byte, error) {
	if len(s.PoisonSym) == 0 {
		return nil, ErrNoKey
	}
	return dup(s.PoisonSym[0]), nil
}

func (s *Store) GetLogSecretKey() ([]byte, error) {
	if s.LogKey == nil {
		return nil, ErrNoKey
	}
	return dup(s.LogKey), nil
}

// GeneratePoisonKeyPair is not supported: harnesses provide poison keys explicitly.
func (s *Store) GeneratePoisonKeyPair() error { return ErrNoKey }

// GeneratePoisonSymmetricKey is not supported: harnesses provide poison keys explicitly.
func (s *Store) GeneratePoisonSymmetricKey() error { return ErrNoKey }

// CacheOnStart completes keystore.TranslationKeyStore.
func (s *Store) CacheOnStart() error { return nil }

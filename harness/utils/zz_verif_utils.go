//go:build verif

package utils

import (
	"github.com/cossacklabs/acra/zz_verif/verif"
)

// VerifC14_DecodeEscapedArbitrary: the PostgreSQL bytea text decoder (hex and escape format) is run on every text
// column, bind parameter and SQL literal. For arbitrary 7-bit input it never panics; it returns either an error with
// the input unchanged or a decoding that the encoder maps back onto an equivalent spelling.
func VerifC14_DecodeEscapedArbitrary() {
	hi := 5
	if verif.Tier() == 1 {
		hi = 7
	}
	n := verif.Choose("n", 0, hi)
	in := verif.Bytes("in", n)
	for i := range in {
		// bound: 7-bit bytes ([]rune of symbolic non-ASCII bytes is not modelled); steer towards the syntax characters
		verif.Assume(in[i] < 0x80)
	}
	keep := append([]byte{}, in...)
	out, err := DecodeEscaped(in)
	verif.Reach("decoded")
	if err != nil {
		verif.Assert(verif.Eq(out, keep), "failed-decoding-returns-input")
		return
	}
	verif.Assert(len(out) <= n, "decoded-not-longer-than-input")
	// decoding the canonical re-encoding gives the same bytes
	if n >= 2 && keep[0] == '\\' && keep[1] == 'x' {
		back, err := DecodeEscaped(PgEncodeToHex(out))
		verif.Assert(err == nil && verif.Eq(back, out), "hex-reencode-roundtrip")
	} else {
		back, err := DecodeOctal(EncodeToOctal(out))
		verif.Assert(err == nil && verif.Eq(back, out), "octal-reencode-roundtrip")
	}
}

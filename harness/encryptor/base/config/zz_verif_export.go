//go:build verif

package config

// VerifNewStore builds a table schema store from structs exactly the way MapTableSchemaStoreFromConfig does after
// yaml.Unmarshal (the YAML decoder is reflection code the symbolic engine cannot run): defaults are applied, every
// setting goes through the real Init validation and the global mask is accumulated.
func VerifNewStore(useMySQL bool, table string, columns []string, settings ...*BasicColumnEncryptionSetting) (*MapTableSchemaStore, error) {
	sc := &storeConfig{Defaults: &defaultValues{}, Schemas: []*tableSchema{{TableName: table, TableColumns: columns, EncryptionColumnSettings: settings}}}
	var mask SettingMask
	mapSchemas := make(map[string]*tableSchema, len(sc.Schemas))
	for _, schema := range sc.Schemas {
		for _, setting := range schema.EncryptionColumnSettings {
			setting.applyDefaults(*sc.Defaults)
			if err := setting.Init(useMySQL); err != nil {
				return nil, err
			}
			mask |= setting.settingMask
		}
		mapSchemas[schema.TableName] = schema
	}
	return &MapTableSchemaStore{databaseSettings: sc.DatabaseSettings, schemas: mapSchemas, globalMask: mask}, nil
}

// VerifInitSetting applies the configuration defaults and validates one setting (as the loader does).
func VerifInitSetting(useMySQL bool, setting *BasicColumnEncryptionSetting) error {
	setting.applyDefaults(defaultValues{})
	return setting.Init(useMySQL)
}

//go:build verif

package mysql

import (
	"context"
	"encoding/hex"
	"net"
	"strconv"
	"strings"

	"github.com/cossacklabs/acra/crypto"
	"github.com/cossacklabs/acra/decryptor/base"
	base_mysql "github.com/cossacklabs/acra/decryptor/mysql/base"
	"github.com/cossacklabs/acra/encryptor/base/config"
	emysql "github.com/cossacklabs/acra/encryptor/mysql"
	maskingCommon "github.com/cossacklabs/acra/masking/common"
	"github.com/cossacklabs/acra/sqlparser"
	"github.com/cossacklabs/acra/zz_verif/verif"
	"github.com/cossacklabs/acra/zz_verif/vks"
	"github.com/cossacklabs/themis/gothemis/keys"
)

func verifDup(b []byte) []byte { return append([]byte{}, b...) }

type verifSession struct {
	ctx  context.Context
	data map[string]interface{}
	ps   interface{}
}

func (s *verifSession) Context() context.Context             { return s.ctx }
func (s *verifSession) ClientConnection() net.Conn           { return nil }
func (s *verifSession) DatabaseConnection() net.Conn         { return nil }
func (s *verifSession) ProtocolState() interface{}           { return s.ps }
func (s *verifSession) SetProtocolState(st interface{})      { s.ps = st }
func (s *verifSession) GetData(k string) (interface{}, bool) { v, ok := s.data[k]; return v, ok }
func (s *verifSession) SetData(k string, v interface{})      { s.data[k] = v }
func (s *verifSession) DeleteData(k string)                  { delete(s.data, k) }
func (s *verifSession) HasData(k string) bool                { _, ok := s.data[k]; return ok }

func verifKeys() *vks.Store {
	s := vks.New()
	// quick: two fixed distinct keys; thorough: any two distinct keys
	ka := []byte("0123456789abcdef0123456789abcdeA")
	kb := []byte("0123456789abcdef0123456789abcdeB")
	if verif.Tier() == 1 {
		ka = verif.Bytes("symA", 32)
		kb = verif.Bytes("symB", 32)
		verif.Assume(!verif.Eq(ka, kb))
	}
	s.AddSym("A", ka)
	s.AddSym("B", kb)
	s.HMAC["A"] = []byte("hmac-key-of-client-A-0123456789ab")
	s.HMAC["B"] = []byte("hmac-key-of-client-B-0123456789ab")
	for _, id := range []string{"A", "B"} {
		kp, _ := keys.New(keys.TypeEC)
		s.AddPair(id, kp)
	}
	return s
}

// verifProxy builds the handler exactly as acra-server does: the real proxy factory wires query observers and column
// subscribers from a table schema (table t: columns id, secret, plain; secret is protected for client A).
func verifProxy(store *vks.Store, client string, envelope config.CryptoEnvelopeType) (*Handler, context.Context, *sqlparser.Parser) {
	env := envelope
	return verifProxyWith(store, client, &config.BasicColumnEncryptionSetting{Name: "secret", UsedClientID: "A", CryptoEnvelope: &env})
}

func verifProxyWith(store *vks.Store, client string, setting0 *config.BasicColumnEncryptionSetting) (*Handler, context.Context, *sqlparser.Parser) {
	crypto.InitRegistry(nil)
	cp := *setting0
	schema, err := config.VerifNewStore(true, "t", []string{"id", "secret", "plain"}, &cp)
	if err != nil {
		panic("schema: " + err.Error())
	}
	parser := sqlparser.New(sqlparser.ModeStrict)
	setting := base.NewProxySetting(parser, schema, store, nil, nil, nil)
	factory, err := NewProxyFactory(setting, store, nil)
	if err != nil {
		panic("factory")
	}
	ctx := base.SetAccessContextToContext(context.Background(), base.NewAccessContext(base.WithClientID([]byte(client))))
	sess := &verifSession{data: map[string]interface{}{}}
	ctx = base.SetClientSessionToContext(ctx, sess)
	sess.ctx = ctx
	p, err := factory.New([]byte(client), sess)
	if err != nil {
		panic("proxy: " + err.Error())
	}
	return p.(*Handler), ctx, parser
}

// verifMarker: n symbolic letters from 'G'..'V' (no hex digit, no SQL syntax).
func verifMarker(name string, n int) []byte {
	m := verif.Bytes(name, n)
	for i := range m {
		m[i] = 'G' + m[i]&15
	}
	return m
}

var verifWrites = []string{
	"insert into t (id, secret, plain) values (1, '%s', 'keep')",
	"insert into t values (1, '%s', 'keep')",
	"insert into t (secret, plain) values ('%s', 'keep'), ('other', 'keep')",
	"update t set secret = '%s', plain = 'keep' where id = 1",
}

func verifFill(skel string, lit []byte) string {
	i := strings.Index(skel, "%s")
	return skel[:i] + string(lit) + skel[i+2:]
}

// VerifC04_MySQLWriteThenRead: a literal written into the protected column of table t reaches the database only as a
// protected value (the forwarded statement does not contain it, the uncovered literal is untouched), and the stored
// value comes back as the original for the owner while a client with other keys gets the stored bytes unchanged.
func VerifC04_MySQLWriteThenRead() {
	store := verifKeys()
	envelope := config.CryptoEnvelopeTypeAcraBlock
	if verif.Choose("envelope", 0, 1) == 1 {
		envelope = config.CryptoEnvelopeTypeAcraStruct
	}
	h, ctx, parser := verifProxy(store, "A", envelope)
	k := verif.Choose("statement", 0, len(verifWrites)-1)
	lit := verifMarker("literal", 3)
	q := verifFill(verifWrites[k], lit)
	obj, changed, err := h.queryObserverManager.OnQuery(ctx, emysql.NewOnQueryObjectFromQuery(q, parser))
	verif.Assert(err == nil, "write-no-error")
	if err != nil {
		return
	}
	verif.Assert(changed, "statement-was-rewritten")
	fwd := obj.Query()
	verif.Reach("forwarded")
	verif.Assert(!verif.Contains([]byte(fwd), lit), "plaintext-not-forwarded")
	verif.Assert(strings.Contains(fwd, "'keep'"), "uncovered-literal-unchanged")
	// the protected value travels as a hex literal X'..'
	start := strings.Index(fwd, "X'")
	verif.Assert(start >= 0, "protected-value-is-a-hex-literal")
	if start < 0 {
		return
	}
	end := strings.Index(fwd[start+2:], "'")
	if end < 0 {
		verif.Assert(false, "hex-literal-terminated")
		return
	}
	stored, err := hex.DecodeString(fwd[start+2 : start+2+end])
	verif.Assert(err == nil, "hex-literal-decodes")
	if err != nil {
		return
	}
	// read side: the stored value comes back in a text protocol row (id, secret, plain)
	row := base_mysql.PutLengthEncodedString([]byte("1"))
	row = append(row, base_mysql.PutLengthEncodedString(stored)...)
	row = append(row, base_mysql.PutLengthEncodedString([]byte("keep"))...)
	fields := []*ColumnDescription{{Name: []byte("id")}, {Name: []byte("secret")}, {Name: []byte("plain")}}
	reader := "A"
	if verif.Choose("reader", 0, 1) == 1 {
		reader = "B"
	}
	rh, rctx, _ := verifProxy(store, reader, envelope)
	out, err := rh.processTextDataRow(rctx, verifDup(row), fields)
	verif.Reach("row-processed")
	verif.Assert(err == nil, "row-no-error")
	if err != nil {
		return
	}
	if reader == "A" {
		want := base_mysql.PutLengthEncodedString([]byte("1"))
		want = append(want, base_mysql.PutLengthEncodedString(lit)...)
		want = append(want, base_mysql.PutLengthEncodedString([]byte("keep"))...)
		verif.Assert(verif.Eq(out, want), "owner-reads-original-row")
	} else {
		// nothing but the stored bytes (which the write side showed to be free of the literal's text form)
		verif.Assert(verif.Eq(out, row), "other-client-gets-stored-row-unchanged")
	}
}

// VerifC04_MySQLUncoveredStatement: statements that touch no protected column are forwarded unchanged.
func VerifC04_MySQLUncoveredStatement() {
	store := verifKeys()
	h, ctx, parser := verifProxy(store, "A", config.CryptoEnvelopeTypeAcraBlock)
	lit := verifMarker("literal", 3)
	skels := []string{"insert into t (id, plain) values (1, '%s')", "insert into u (secret) values ('%s')", "update t set plain = '%s' where id = 1", "select id from t where plain = '%s'"}
	q := verifFill(skels[verif.Choose("statement", 0, len(skels)-1)], lit)
	obj, changed, err := h.queryObserverManager.OnQuery(ctx, emysql.NewOnQueryObjectFromQuery(q, parser))
	verif.Reach("observed")
	verif.Assert(err == nil, "no-error")
	if err != nil {
		return
	}
	if changed {
		verif.Assert(obj.Query() == q, "uncovered-statement-unchanged")
	} else {
		verif.Assert(obj.Query() == q, "uncovered-statement-identical")
	}
}

// VerifC04_MySQLUncoveredRowValue: result columns that carry nothing Acra protects come back byte for byte, whatever
// their length (the length prefix changes its form at 251, 2^16 and 2^24) and for NULLs.
func VerifC04_MySQLUncoveredRowValue() {
	store := verifKeys()
	h, ctx, _ := verifProxy(store, "A", config.CryptoEnvelopeTypeAcraBlock)
	lengths := []int{0, 1, 2, 250, 251, 252, 253, 65535, 65536}
	n := lengths[verif.Choose("length", 0, len(lengths)-1)]
	val := make([]byte, n)
	for i := range val {
		val[i] = 'x'
	}
	head := verif.Bytes("head", 2)
	for i := 0; i < 2 && i < n; i++ {
		val[i] = head[i]
	}
	row := base_mysql.PutLengthEncodedString([]byte("1"))
	if verif.Choose("secret-null", 0, 1) == 1 {
		row = append(row, 0xfb)
	} else {
		row = append(row, base_mysql.PutLengthEncodedString(verifMarker("secret", 3))...)
	}
	row = append(row, base_mysql.PutLengthEncodedString(val)...)
	fields := []*ColumnDescription{{Name: []byte("id")}, {Name: []byte("secret")}, {Name: []byte("plain")}}
	out, err := h.processTextDataRow(ctx, verifDup(row), fields)
	verif.Reach("row-processed")
	verif.Assert(err == nil, "row-no-error")
	if err != nil {
		return
	}
	verif.Assert(len(out) == len(row), "uncovered-row-same-length")
	verif.Assert(verif.Eq(out, row), "uncovered-row-unchanged")
}

// verifStoredHexLiteral returns what the first X'..' literal of a forwarded statement denotes.
func verifStoredHexLiteral(fwd string) ([]byte, bool) {
	start := strings.Index(fwd, "X'")
	if start < 0 {
		return nil, false
	}
	end := strings.Index(fwd[start+2:], "'")
	if end < 0 {
		return nil, false
	}
	b, err := hex.DecodeString(fwd[start+2 : start+2+end])
	return b, err == nil
}

// verifHexNumber returns what the first 0x... number of a forwarded statement denotes.
func verifHexNumber(fwd string) ([]byte, bool) {
	start := strings.Index(fwd, "0x")
	if start < 0 {
		return nil, false
	}
	rest := fwd[start+2:]
	if end := strings.IndexByte(rest, ' '); end >= 0 {
		rest = rest[:end]
	}
	b, err := hex.DecodeString(rest)
	return b, err == nil
}

// VerifC09_MySQLSearchable: a searchable column. The stored value starts with a blind index; an equality search for
// the same plaintext — written as a string literal or as a hex string literal — is forwarded as a comparison with
// exactly that index, and never carries the plaintext (pre-protected search values: VerifC09_MySQLPreparedSearch).
func VerifC09_MySQLSearchable() {
	store := verifKeys()
	env := config.CryptoEnvelopeTypeAcraBlock
	if verif.Choose("envelope", 0, 1) == 1 {
		env = config.CryptoEnvelopeTypeAcraStruct
	}
	setting := &config.BasicColumnEncryptionSetting{Name: "secret", UsedClientID: "A", CryptoEnvelope: &env, Searchable: true}
	h, ctx, parser := verifProxyWith(store, "A", setting)
	lit := verifMarker("literal", 3)
	obj, changed, err := h.queryObserverManager.OnQuery(ctx, emysql.NewOnQueryObjectFromQuery(verifFill("insert into t (id, secret, plain) values (1, '%s', 'keep')", lit), parser))
	verif.Assert(err == nil && changed, "write-rewritten")
	if err != nil || !changed {
		return
	}
	stored, ok := verifStoredHexLiteral(obj.Query())
	verif.Assert(ok, "protected-value-is-a-hex-literal")
	if !ok {
		return
	}
	verif.Reach("written")
	var q string
	if verif.Choose("term", 0, 1) == 0 {
		q = verifFill("select id from t where secret = '%s'", lit)
	} else {
		// the same bytes spelled as a hex string literal
		q = "select id from t where secret = X'" + hex.EncodeToString(lit) + "'"
	}
	sobj, changed, err := h.queryObserverManager.OnQuery(ctx, emysql.NewOnQueryObjectFromQuery(q, parser))
	verif.Reach("search-observed")
	verif.Assert(err == nil && changed, "search-rewritten")
	if err != nil || !changed {
		return
	}
	fwd := sobj.Query()
	verif.Assert(!verif.Contains([]byte(fwd), lit), "search-value-not-forwarded")
	index, ok := verifHexNumber(fwd)
	verif.Assert(ok, "search-compares-with-a-hex-number")
	if ok {
		verif.Assert(len(index) > 0 && len(index) <= len(stored) && verif.Eq(index, stored[:len(index)]), "search-index-is-the-stored-prefix")
	}
}

// VerifC19_MySQLTypedRowPolicies: a text-protocol row with two typed protected columns written for different clients.
// Every column follows its own outcome: the one the reader can open comes back as the declared type, the other one
// gets exactly its failure policy (here the configured default), independently of its neighbour and of their order.
func VerifC19_MySQLTypedRowPolicies() {
	store := verifKeys()
	crypto.InitRegistry(nil)
	env := config.CryptoEnvelopeTypeAcraBlock
	def := "-1"
	schema, err := config.VerifNewStore(true, "t", []string{"id", "name", "age"},
		&config.BasicColumnEncryptionSetting{Name: "name", UsedClientID: "A", CryptoEnvelope: &env, DataType: "str", ResponseOnFail: "default_value", DefaultDataValue: strPtr("n/a")},
		&config.BasicColumnEncryptionSetting{Name: "age", UsedClientID: "B", CryptoEnvelope: &env, DataType: "int32", ResponseOnFail: "default_value", DefaultDataValue: &def})
	if err != nil {
		panic("schema: " + err.Error())
	}
	mk := func(client string) (*Handler, context.Context, *sqlparser.Parser) {
		parser := sqlparser.New(sqlparser.ModeStrict)
		setting := base.NewProxySetting(parser, schema, store, nil, nil, nil)
		factory, err := NewProxyFactory(setting, store, nil)
		if err != nil {
			panic("factory")
		}
		ctx := base.SetAccessContextToContext(context.Background(), base.NewAccessContext(base.WithClientID([]byte(client))))
		sess := &verifSession{data: map[string]interface{}{}}
		ctx = base.SetClientSessionToContext(ctx, sess)
		sess.ctx = ctx
		p, err := factory.New([]byte(client), sess)
		if err != nil {
			panic("proxy: " + err.Error())
		}
		return p.(*Handler), ctx, parser
	}
	w, wctx, parser := mk("A")
	lit := verifMarker("name", 3)
	obj, changed, err := w.queryObserverManager.OnQuery(wctx, emysql.NewOnQueryObjectFromQuery(verifFill("insert into t (id, name, age) values (1, '%s', 42)", lit), parser))
	verif.Assert(err == nil && changed, "write-rewritten")
	if err != nil || !changed {
		return
	}
	fwd := obj.Query()
	// two hex literals: name, then age
	first, ok := verifStoredHexLiteral(fwd)
	verif.Assert(ok, "name-stored-as-hex-literal")
	if !ok {
		return
	}
	rest := fwd[strings.Index(fwd, "X'")+2:]
	second, ok := verifStoredHexLiteral(rest[strings.Index(rest, "'")+1:])
	verif.Assert(ok, "age-stored-as-hex-literal")
	if !ok {
		return
	}
	verif.Reach("written")
	reader := "A"
	if verif.Choose("reader", 0, 1) == 1 {
		reader = "B"
	}
	order := verif.Choose("order", 0, 1) // 0: name, age; 1: age, name
	r, rctx, rparser := mk(reader)
	sel := "select name, age from t"
	fields := []*ColumnDescription{{Name: []byte("name"), Type: base_mysql.TypeBlob}, {Name: []byte("age"), Type: base_mysql.TypeBlob}}
	cols := [][]byte{first, second}
	if order == 1 {
		sel = "select age, name from t"
		fields = []*ColumnDescription{fields[1], fields[0]}
		cols = [][]byte{second, first}
	}
	if _, _, err := r.queryObserverManager.OnQuery(rctx, emysql.NewOnQueryObjectFromQuery(sel, rparser)); err != nil {
		return
	}
	row := append(base_mysql.PutLengthEncodedString(cols[0]), base_mysql.PutLengthEncodedString(cols[1])...)
	out, err := r.processTextDataRow(rctx, verifDup(row), fields)
	verif.Reach("row-processed")
	verif.Assert(err == nil, "row-no-error")
	if err != nil {
		return
	}
	name, age := lit, []byte("-1")
	if reader == "B" {
		name, age = []byte("n/a"), []byte("42")
	}
	want := [][]byte{name, age}
	if order == 1 {
		want = [][]byte{age, name}
	}
	verif.Assert(verif.Eq(out, append(base_mysql.PutLengthEncodedString(want[0]), base_mysql.PutLengthEncodedString(want[1])...)), "each-column-follows-its-own-policy")
}

func strPtr(s string) *string { return &s }

// ---- prepared statements (binary protocol) ----

// verifExecutePacket builds COM_STMT_EXECUTE with every parameter sent as VAR_STRING.
func verifExecutePacket(stmtID uint32, params [][]byte) *Packet {
	data := []byte{CommandStatementExecute, byte(stmtID), byte(stmtID >> 8), byte(stmtID >> 16), byte(stmtID >> 24), 0, 1, 0, 0, 0}
	data = append(data, make([]byte, (len(params)+7)/8)...) // null bitmap
	data = append(data, 1)                                  // new-params-bound
	for range params {
		data = append(data, byte(base_mysql.TypeVarString), 0)
	}
	for _, p := range params {
		data = append(data, base_mysql.PutLengthEncodedString(p)...)
	}
	packet := NewPacket()
	packet.SetData(data)
	return packet
}

// verifExecuteParams splits the parameter values out of a COM_STMT_EXECUTE payload (independent of Packet's code).
func verifExecuteParams(data []byte, n int) ([][]byte, bool) {
	pos := 10 + (n+7)/8
	if len(data) < pos+1 || data[pos] != 1 {
		return nil, false
	}
	pos += 1 + 2*n
	var out [][]byte
	for i := 0; i < n; i++ {
		if pos >= len(data) {
			return nil, false
		}
		v, used, err := base_mysql.LengthEncodedString(data[pos:])
		if err != nil {
			return nil, false
		}
		out = append(out, v)
		pos += used
	}
	return out, pos == len(data)
}

// verifPrepare does what the handler does around COM_STMT_PREPARE: the observers see the statement text, and the
// statement is registered when the database has answered.
func verifPrepare(h *Handler, ctx context.Context, parser *sqlparser.Parser, id uint32, query string, params int) bool {
	if _, _, err := h.queryObserverManager.OnQuery(ctx, emysql.NewOnQueryObjectFromQuery(query, parser)); err != nil {
		return false
	}
	st, err := parser.Parse(query)
	if err != nil {
		return false
	}
	h.registry.AddStatement(NewPreparedStatementItem(NewPreparedStatement(id, uint16(params), query, st), nil))
	return true
}

// VerifC04_MySQLPreparedWrite: values bound to placeholders of the protected column in a prepared INSERT (one row,
// two rows) or UPDATE are forwarded in protected form only, the other parameters unchanged; what was forwarded comes
// back as the original for the owner.
func VerifC04_MySQLPreparedWrite() {
	store := verifKeys()
	h, ctx, parser := verifProxy(store, "A", config.CryptoEnvelopeTypeAcraBlock)
	lit := verifMarker("value", 3)
	var query string
	var params [][]byte
	var secretAt []int
	switch verif.Choose("statement", 0, 2) {
	case 0:
		query, params, secretAt = "insert into t (id, secret, plain) values (?, ?, ?)", [][]byte{[]byte("1"), lit, []byte("keep")}, []int{1}
	case 1:
		query = "insert into t (id, secret, plain) values (?, ?, ?), (?, ?, ?)"
		params = [][]byte{[]byte("1"), lit, []byte("keep"), []byte("2"), verifMarker("second", 3), []byte("keep")}
		secretAt = []int{1, 4}
	case 2:
		query, params, secretAt = "update t set plain = ?, secret = ? where id = ?", [][]byte{[]byte("keep"), lit, []byte("1")}, []int{1}
	}
	if !verifPrepare(h, ctx, parser, 1, query, len(params)) {
		verif.Assert(false, "prepared")
		return
	}
	packet := verifExecutePacket(1, params)
	_, err := h.handleStatementExecute(ctx, packet)
	verif.Reach("executed")
	verif.Assert(err == nil, "execute-no-error")
	if err != nil {
		return
	}
	fwd, ok := verifExecuteParams(packet.GetData(), len(params))
	verif.Assert(ok, "forwarded-execute-well-formed")
	if !ok {
		return
	}
	isSecret := map[int]bool{}
	for _, i := range secretAt {
		isSecret[i] = true
	}
	for i := range params {
		if isSecret[i] {
			verif.Assert(len(fwd[i]) > len(params[i]) && !verif.Eq(fwd[i][:3], params[i]), "protected-parameter-rewritten")
		} else {
			verif.Assert(verif.Eq(fwd[i], params[i]), "uncovered-parameter-unchanged")
		}
	}
	// read back what the first protected parameter stored
	row := base_mysql.PutLengthEncodedString([]byte("1"))
	row = append(row, base_mysql.PutLengthEncodedString(fwd[secretAt[0]])...)
	row = append(row, base_mysql.PutLengthEncodedString([]byte("keep"))...)
	fields := []*ColumnDescription{{Name: []byte("id")}, {Name: []byte("secret")}, {Name: []byte("plain")}}
	out, err := h.processTextDataRow(ctx, verifDup(row), fields)
	verif.Assert(err == nil, "row-no-error")
	if err != nil {
		return
	}
	want := base_mysql.PutLengthEncodedString([]byte("1"))
	want = append(want, base_mysql.PutLengthEncodedString(lit)...)
	want = append(want, base_mysql.PutLengthEncodedString([]byte("keep"))...)
	verif.Assert(verif.Eq(out, want), "owner-reads-original-row")
}

// VerifC09_MySQLPreparedSearch: the searched value of a prepared equality search, bound in clear or already protected
// by the application, is replaced by exactly the blind index the stored value carries.
func VerifC09_MySQLPreparedSearch() {
	store := verifKeys()
	env := config.CryptoEnvelopeTypeAcraBlock
	if verif.Choose("envelope", 0, 1) == 1 {
		env = config.CryptoEnvelopeTypeAcraStruct
	}
	setting := &config.BasicColumnEncryptionSetting{Name: "secret", UsedClientID: "A", CryptoEnvelope: &env, Searchable: true}
	h, ctx, parser := verifProxyWith(store, "A", setting)
	lit := verifMarker("literal", 3)
	obj, changed, err := h.queryObserverManager.OnQuery(ctx, emysql.NewOnQueryObjectFromQuery(verifFill("insert into t (id, secret, plain) values (1, '%s', 'keep')", lit), parser))
	if err != nil || !changed {
		verif.Assert(false, "write-rewritten")
		return
	}
	stored, ok := verifStoredHexLiteral(obj.Query())
	if !ok {
		verif.Assert(false, "protected-value-is-a-hex-literal")
		return
	}
	term := lit
	if verif.Choose("term", 0, 1) == 1 {
		rh := crypto.NewRegistryHandler(store)
		hd, _ := crypto.GetHandlerByName(string(env))
		term, err = rh.EncryptWithHandler(hd, []byte("A"), verifDup(lit))
		if err != nil {
			return
		}
	}
	if !verifPrepare(h, ctx, parser, 1, "select id from t where secret = ?", 1) {
		verif.Assert(false, "prepared")
		return
	}
	packet := verifExecutePacket(1, [][]byte{term})
	_, err = h.handleStatementExecute(ctx, packet)
	verif.Reach("executed")
	verif.Assert(err == nil, "execute-no-error")
	if err != nil {
		return
	}
	fwd, ok := verifExecuteParams(packet.GetData(), 1)
	verif.Assert(ok, "forwarded-execute-well-formed")
	if !ok {
		return
	}
	verif.Assert(len(fwd[0]) > 0 && len(fwd[0]) <= len(stored) && verif.Eq(fwd[0], stored[:len(fwd[0])]), "search-index-is-the-stored-prefix")
}

// VerifC14_MySQLRowDecoders: result rows are bytes returned by the database. Whatever they are, decoding a text row or
// a binary (prepared statement) row against the column list ends with an error or a row, never with a panic; a row
// the decoder accepts and that carries nothing protected comes back unchanged.
func VerifC14_MySQLRowDecoders() {
	store := verifKeys()
	h, ctx, _ := verifProxy(store, "A", config.CryptoEnvelopeTypeAcraBlock)
	hi := 5
	if verif.Tier() == 1 {
		hi = 8
	}
	row := verif.Bytes("row", verif.Choose("n", 1, hi))
	keep := verifDup(row)
	binaryRow := verif.Choose("binary", 0, 1) == 1
	var fields []*ColumnDescription
	switch verif.Choose("fields", 0, 2) {
	case 0:
		fields = []*ColumnDescription{{Name: []byte("id"), Type: base_mysql.TypeLong}}
	case 1:
		fields = []*ColumnDescription{{Name: []byte("plain"), Type: base_mysql.TypeVarString}}
	case 2:
		fields = []*ColumnDescription{{Name: []byte("id"), Type: base_mysql.TypeLongLong}, {Name: []byte("plain"), Type: base_mysql.TypeBlob}}
	}
	var out []byte
	var err error
	if binaryRow {
		out, err = h.processBinaryDataRow(ctx, row, fields)
	} else {
		out, err = h.processTextDataRow(ctx, row, fields)
	}
	verif.Reach("decoded")
	if err == nil {
		verif.Assert(len(out) <= len(keep), "accepted-row-not-longer")
	}
}

// VerifC14_MySQLClientPackets: bytes supplied by a client. A COM_STMT_EXECUTE payload of any content for a registered
// statement with 1..2 parameters, and a column definition packet of any content, end with an error or a result,
// never with a panic.
func VerifC14_MySQLClientPackets() {
	store := verifKeys()
	h, ctx, parser := verifProxy(store, "A", config.CryptoEnvelopeTypeAcraBlock)
	hi := 6
	if verif.Tier() == 1 {
		hi = 10
	}
	if verif.Choose("what", 0, 1) == 0 {
		np := verif.Choose("params", 1, 2)
		q := "insert into t (id, secret) values (?, ?)"
		if np == 1 {
			q = "insert into t (secret) values (?)"
		}
		if !verifPrepare(h, ctx, parser, 1, q, np) {
			return
		}
		// everything after the command byte is the client's; when it is long enough to name a statement, it names ours
		tail := verif.Bytes("tail", verif.Choose("n", 0, hi+6))
		if len(tail) >= 4 {
			verif.Assume(verif.And(tail[0] == 1, tail[1] == 0, tail[2] == 0, tail[3] == 0))
		}
		data := append([]byte{CommandStatementExecute}, tail...)
		packet := NewPacket()
		packet.SetData(data)
		h.handleStatementExecute(ctx, packet)
		verif.Reach("execute-handled")
		return
	}
	data := verif.Bytes("field", verif.Choose("n", 0, hi))
	packet := NewPacket()
	packet.SetData(data)
	ParseResultField(packet, verif.Bool("mariadb-extended"))
	verif.Reach("field-parsed")
}

// VerifC12_MySQLRowReframe: a text row whose protected column shrinks to a plaintext of 250, 251 or 252 bytes (the
// length prefix changes its form at 251) is re-framed correctly: declared lengths equal actual ones, the neighbours
// keep their bytes, NULL stays NULL.
func VerifC12_MySQLRowReframe() {
	store := verifKeys()
	h, ctx, parser := verifProxy(store, "A", config.CryptoEnvelopeTypeAcraBlock)
	n := 250 + verif.Choose("extra", 0, 2)
	plain := make([]byte, n)
	for i := range plain {
		plain[i] = 'p'
	}
	copy(plain, verifMarker("head", 2))
	obj, changed, err := h.queryObserverManager.OnQuery(ctx, emysql.NewOnQueryObjectFromQuery(verifFill("insert into t (id, secret, plain) values (1, '%s', 'keep')", plain), parser))
	if err != nil || !changed {
		verif.Assert(false, "write-rewritten")
		return
	}
	stored, ok := verifStoredHexLiteral(obj.Query())
	if !ok {
		verif.Assert(false, "protected-value-is-a-hex-literal")
		return
	}
	var first []byte
	nullFirst := verif.Choose("first-null", 0, 1) == 1
	if nullFirst {
		first = []byte{0xfb}
	} else {
		first = base_mysql.PutLengthEncodedString([]byte("1"))
	}
	row := append(verifDup(first), base_mysql.PutLengthEncodedString(stored)...)
	row = append(row, base_mysql.PutLengthEncodedString([]byte("keep"))...)
	fields := []*ColumnDescription{{Name: []byte("id")}, {Name: []byte("secret")}, {Name: []byte("plain")}}
	out, err := h.processTextDataRow(ctx, verifDup(row), fields)
	verif.Reach("row-processed")
	verif.Assert(err == nil, "row-no-error")
	if err != nil {
		return
	}
	// independent re-decoding of the rewritten row
	var prefix []byte
	if n <= 250 {
		prefix = []byte{byte(n)}
	} else {
		prefix = []byte{0xfc, byte(n), byte(n >> 8)}
	}
	want := append(verifDup(first), prefix...)
	want = append(want, plain...)
	want = append(want, 4, 'k', 'e', 'e', 'p')
	verif.Assert(len(out) == len(want), "rewritten-row-length")
	verif.Assert(verif.Eq(out, want), "rewritten-row-well-formed")
}

// VerifC11_MySQLMasking: a masked column through the MySQL proxy. The forwarded statement never carries the whole
// value, the owner reads the original, a client without the keys gets the visible window and the mask.
func VerifC11_MySQLMasking() {
	store := verifKeys()
	env := config.CryptoEnvelopeTypeAcraBlock
	side := maskingCommon.PlainTextSideLeft
	if verif.Choose("side", 0, 1) == 1 {
		side = maskingCommon.PlainTextSideRight
	}
	setting := &config.BasicColumnEncryptionSetting{Name: "secret", UsedClientID: "A", CryptoEnvelope: &env,
		MaskingPattern: "##", PartialPlaintextLenBytes: 1, PlaintextSide: side}
	h, ctx, parser := verifProxyWith(store, "A", setting)
	lit := verifMarker("literal", 3)
	obj, changed, err := h.queryObserverManager.OnQuery(ctx, emysql.NewOnQueryObjectFromQuery(verifFill("insert into t (id, secret, plain) values (1, '%s', 'keep')", lit), parser))
	verif.Assert(err == nil && changed, "write-rewritten")
	if err != nil || !changed {
		return
	}
	fwd := obj.Query()
	verif.Assert(!verif.Contains([]byte(fwd), lit), "whole-plaintext-not-forwarded")
	stored, ok := verifStoredHexLiteral(fwd)
	verif.Assert(ok, "protected-value-is-a-hex-literal")
	if !ok {
		return
	}
	owner := verif.Choose("reader", 0, 1) == 0
	rh, rctx := h, ctx
	if !owner {
		rh, rctx, _ = verifProxyWith(store, "B", setting)
	}
	// the SELECT arrives directly, or through a SQL-level prepared statement (PREPARE name FROM '..'; EXECUTE name)
	// whose name is spelled in lower or in mixed case
	var stmts []string
	switch verif.Choose("via", 0, 2) {
	case 0:
		stmts = []string{"select id, secret, plain from t"}
	case 1:
		stmts = []string{"prepare getrow from 'select id, secret, plain from t'", "execute getrow"}
	case 2:
		stmts = []string{"prepare GetRow from 'select id, secret, plain from t'", "execute GetRow"}
	}
	for _, st := range stmts {
		if _, _, err := rh.queryObserverManager.OnQuery(rctx, emysql.NewOnQueryObjectFromQuery(st, parser)); err != nil {
			verif.Assert(false, "select-observed-without-error")
			return
		}
	}
	row := base_mysql.PutLengthEncodedString([]byte("1"))
	row = append(row, base_mysql.PutLengthEncodedString(stored)...)
	row = append(row, base_mysql.PutLengthEncodedString([]byte("keep"))...)
	fields := []*ColumnDescription{{Name: []byte("id")}, {Name: []byte("secret")}, {Name: []byte("plain")}}
	out, err := rh.processTextDataRow(rctx, verifDup(row), fields)
	verif.Reach("row-processed")
	verif.Assert(err == nil, "row-no-error")
	if err != nil {
		return
	}
	shown := lit
	if !owner {
		shown = append([]byte{lit[0]}, "##"...)
		if side == maskingCommon.PlainTextSideRight {
			shown = append([]byte("##"), lit[2])
		}
	}
	want := base_mysql.PutLengthEncodedString([]byte("1"))
	want = append(want, base_mysql.PutLengthEncodedString(shown)...)
	want = append(want, base_mysql.PutLengthEncodedString([]byte("keep"))...)
	if owner {
		verif.Assert(verif.Eq(out, want), "owner-reads-original-row")
	} else {
		verif.Assert(verif.Eq(out, want), "other-client-gets-window-and-mask")
	}
}

// VerifC09_MySQLPreparedSearchNumeric: the searched value bound as a binary-protocol integer (TINY, SHORT, LONG).
// The blind index put into the forwarded parameter is the one a row carries whose plaintext is the decimal text of
// that number, for every value including the negative ones.
func VerifC09_MySQLPreparedSearchNumeric() {
	store := verifKeys()
	env := config.CryptoEnvelopeTypeAcraBlock
	setting := &config.BasicColumnEncryptionSetting{Name: "secret", UsedClientID: "A", CryptoEnvelope: &env, Searchable: true}
	h, ctx, parser := verifProxyWith(store, "A", setting)
	var text string
	var typ base_mysql.Type
	var raw []byte
	switch verif.Choose("type", 0, 2) {
	case 0:
		v := int8(verif.U8("tiny"))
		text, typ, raw = strconv.Itoa(int(v)), base_mysql.TypeTiny, []byte{byte(v)}
	case 1:
		v := int16(verif.U16("short"))
		verif.Assume(verif.Or(verif.And(v >= -9, v <= 9), v == -32768, v == 32767, v == -300, v == 300))
		text, typ, raw = strconv.Itoa(int(v)), base_mysql.TypeShort, []byte{byte(v), byte(uint16(v) >> 8)}
	case 2:
		v := int32(verif.U32("long"))
		// keep the decimal text short: three interesting regions
		verif.Assume(verif.Or(verif.And(v >= -9, v <= 9), v == -2147483648, v == 2147483647))
		u := uint32(v)
		text, typ, raw = strconv.Itoa(int(v)), base_mysql.TypeLong, []byte{byte(u), byte(u >> 8), byte(u >> 16), byte(u >> 24)}
	}
	obj, changed, err := h.queryObserverManager.OnQuery(ctx, emysql.NewOnQueryObjectFromQuery(verifFill("insert into t (id, secret, plain) values (1, '%s', 'keep')", []byte(text)), parser))
	if err != nil || !changed {
		verif.Assert(false, "write-rewritten")
		return
	}
	stored, ok := verifStoredHexLiteral(obj.Query())
	if !ok {
		verif.Assert(false, "protected-value-is-a-hex-literal")
		return
	}
	if !verifPrepare(h, ctx, parser, 1, "select id from t where secret = ?", 1) {
		verif.Assert(false, "prepared")
		return
	}
	data := []byte{CommandStatementExecute, 1, 0, 0, 0, 0, 1, 0, 0, 0, 0, 1, byte(typ), 0}
	data = append(data, raw...)
	packet := NewPacket()
	packet.SetData(data)
	_, err = h.handleStatementExecute(ctx, packet)
	verif.Reach("executed")
	verif.Assert(err == nil, "execute-no-error")
	if err != nil {
		return
	}
	// the rewritten parameter is a length-encoded string now: find the index bytes at the end of the payload
	out := packet.GetData()
	hs := 33
	verif.Assert(len(out) >= hs && len(stored) >= hs, "payload-holds-an-index")
	if len(out) < hs || len(stored) < hs {
		return
	}
	verif.Assert(verif.Eq(out[len(out)-hs:], stored[:hs]), "search-index-is-the-stored-prefix")
}

// VerifC09_MySQLTwoSearchablePlaceholders: two searchable columns searched in one prepared statement: each bound value
// is replaced by the blind index its own column carries (the second one too).
func VerifC09_MySQLTwoSearchablePlaceholders() {
	store := verifKeys()
	crypto.InitRegistry(nil)
	env := config.CryptoEnvelopeTypeAcraBlock
	schema, err := config.VerifNewStore(true, "t", []string{"id", "secret", "plain"},
		&config.BasicColumnEncryptionSetting{Name: "secret", UsedClientID: "A", CryptoEnvelope: &env, Searchable: true},
		&config.BasicColumnEncryptionSetting{Name: "plain", UsedClientID: "A", CryptoEnvelope: &env, Searchable: true})
	if err != nil {
		panic("schema: " + err.Error())
	}
	parser := sqlparser.New(sqlparser.ModeStrict)
	setting := base.NewProxySetting(parser, schema, store, nil, nil, nil)
	factory, err := NewProxyFactory(setting, store, nil)
	if err != nil {
		panic("factory")
	}
	ctx := base.SetAccessContextToContext(context.Background(), base.NewAccessContext(base.WithClientID([]byte("A"))))
	sess := &verifSession{data: map[string]interface{}{}}
	ctx = base.SetClientSessionToContext(ctx, sess)
	sess.ctx = ctx
	p, err := factory.New([]byte("A"), sess)
	if err != nil {
		panic("proxy: " + err.Error())
	}
	h := p.(*Handler)
	a := verifMarker("first", 2)
	b := verifMarker("second", 2)
	q := "insert into t (id, secret, plain) values (1, '" + string(a) + "', '" + string(b) + "')"
	obj, changed, err := h.queryObserverManager.OnQuery(ctx, emysql.NewOnQueryObjectFromQuery(q, parser))
	if err != nil || !changed {
		verif.Assert(false, "write-rewritten")
		return
	}
	fwd := obj.Query()
	s1, ok := verifStoredHexLiteral(fwd)
	if !ok {
		verif.Assert(false, "first-stored-as-hex-literal")
		return
	}
	rest := fwd[strings.Index(fwd, "X'")+2:]
	s2, ok := verifStoredHexLiteral(rest[strings.Index(rest, "'")+1:])
	if !ok {
		verif.Assert(false, "second-stored-as-hex-literal")
		return
	}
	if !verifPrepare(h, ctx, parser, 1, "select id from t where secret = ? and plain = ?", 2) {
		verif.Assert(false, "prepared")
		return
	}
	packet := verifExecutePacket(1, [][]byte{a, b})
	_, err = h.handleStatementExecute(ctx, packet)
	verif.Reach("executed")
	verif.Assert(err == nil, "execute-no-error")
	if err != nil {
		return
	}
	out, ok := verifExecuteParams(packet.GetData(), 2)
	verif.Assert(ok, "forwarded-execute-well-formed")
	if !ok {
		return
	}
	verif.Assert(len(out[0]) == 33 && verif.Eq(out[0], s1[:33]), "first-index-is-the-stored-prefix")
	verif.Assert(len(out[1]) == 33 && verif.Eq(out[1], s2[:33]), "second-index-is-the-stored-prefix")
}

// VerifC12_MySQLExecuteRewriteLayout: a COM_STMT_EXECUTE that Acra rewrites keeps its layout for every parameter
// count around the NULL-bitmap byte boundary (7, 8, 9 parameters): re-decoded independently it has the same count,
// the untouched values byte for byte, and ends exactly where the payload ends.
func VerifC12_MySQLExecuteRewriteLayout() {
	store := verifKeys()
	h, ctx, parser := verifProxy(store, "A", config.CryptoEnvelopeTypeAcraBlock)
	n := verif.Choose("params", 7, 9)
	// table t has three columns; the statement updates the protected one and filters with n-1 placeholders
	q := "update t set secret = ? where id in (?"
	for i := 2; i < n; i++ {
		q += ", ?"
	}
	q += ")"
	params := [][]byte{verifMarker("value", 3)}
	for i := 1; i < n; i++ {
		params = append(params, []byte{byte('0' + i)})
	}
	if !verifPrepare(h, ctx, parser, 1, q, n) {
		verif.Assert(false, "prepared")
		return
	}
	packet := verifExecutePacket(1, params)
	_, err := h.handleStatementExecute(ctx, packet)
	verif.Reach("executed")
	verif.Assert(err == nil, "execute-no-error")
	if err != nil {
		return
	}
	out, ok := verifExecuteParams(packet.GetData(), n)
	verif.Assert(ok, "rewritten-execute-well-formed")
	if !ok {
		return
	}
	verif.Assert(len(out[0]) > 3, "protected-parameter-rewritten")
	for i := 1; i < n; i++ {
		verif.Assert(verif.Eq(out[i], params[i]), "untouched-parameter-identical")
	}
}

// VerifC04_MySQLSetVariables: MySQL SQL-level prepared statements take their arguments from user variables; acra
// protects `SET @<table>__<column> = 'value'` for a protected column. Whatever else the same SET assigns (before or
// after), the forwarded statement carries the protected value only in protected form and the rest unchanged.
func VerifC04_MySQLSetVariables() {
	store := verifKeys()
	h, ctx, parser := verifProxy(store, "A", config.CryptoEnvelopeTypeAcraBlock)
	lit := verifMarker("literal", 3)
	skels := []string{
		"set @t__secret = '%s'",
		"set @t__secret = '%s', @id = 7",
		"set @id = 7, @t__secret = '%s'",
		"set @t__secret = '%s', @note = 'keep'",
	}
	k := verif.Choose("statement", 0, len(skels)-1)
	q := verifFill(skels[k], lit)
	obj, changed, err := h.queryObserverManager.OnQuery(ctx, emysql.NewOnQueryObjectFromQuery(q, parser))
	verif.Reach("observed")
	verif.Assert(err == nil, "no-error")
	if err != nil {
		return
	}
	// the proxy replaces the packet's query only when an observer reports a change
	fwd := q
	if changed {
		fwd = obj.Query()
	}
	verif.Assert(!verif.Contains([]byte(fwd), lit), "plaintext-not-forwarded")
	if k == 3 {
		verif.Assert(strings.Contains(fwd, "'keep'"), "uncovered-assignment-unchanged")
	}
}

// VerifC12_MySQLBinaryRowRelay: a binary-protocol (prepared statement) row of columns the configuration does not cover
// is relayed byte for byte, whatever the column's type. The oracle is the wire size of each type from the MySQL
// protocol description (TINY 1; SHORT, YEAR 2; INT24, LONG, FLOAT 4; LONGLONG, DOUBLE 8; everything else carries its
// own length), not the proxy's table.
func VerifC12_MySQLBinaryRowRelay() {
	store := verifKeys()
	h, ctx, _ := verifProxy(store, "A", config.CryptoEnvelopeTypeAcraBlock)
	type wire struct {
		t    base_mysql.Type
		size int // 0: length-prefixed
	}
	kinds := []wire{
		{base_mysql.TypeTiny, 1}, {base_mysql.TypeShort, 2}, {base_mysql.TypeYear, 2}, {base_mysql.TypeInt24, 4},
		{base_mysql.TypeLong, 4}, {base_mysql.TypeFloat, 4}, {base_mysql.TypeLongLong, 8}, {base_mysql.TypeDouble, 8},
		{base_mysql.TypeDate, 0}, {base_mysql.TypeDatetime, 0}, {base_mysql.TypeTime, 0}, {base_mysql.TypeNewDecimal, 0},
		{base_mysql.TypeVarchar, 0}, {base_mysql.TypeBit, 0},
	}
	k := kinds[verif.Choose("type", 0, len(kinds)-1)]
	var value []byte
	if k.size > 0 {
		// the proxy prints a number and parses it back (64-bit division by ten on symbolic values is out of reach,
		// see DESIGN.md): the numeric values are boundary representatives, the solver chooses among them
		switch {
		case k.t == base_mysql.TypeFloat:
			value = []byte{0, 0, 0xc0, 0x3f}
		case k.t == base_mysql.TypeDouble:
			value = []byte{0, 0, 0, 0, 0, 0, 0xf8, 0x3f}
		case k.t == base_mysql.TypeYear:
			value = []byte{0xe8, 0x07}
		default:
			value = make([]byte, k.size)
			switch verif.Choose("number", 0, 2) {
			case 0:
				value[0] = 5
			case 1: // -1
				for i := range value {
					value[i] = 0xff
				}
			case 2: // 0x..3930: bytes that are ASCII digits
				for i := range value {
					value[i] = '0' + byte(i)
				}
				if k.t == base_mysql.TypeInt24 {
					value[3] = 0
				}
			}
		}
	} else {
		body := verif.Bytes("body", verif.Choose("len", 0, 4))
		value = append([]byte{byte(len(body))}, body...)
	}
	// header, null bitmap (3 columns: one byte), id, the typed column, a string column
	bitmap := byte(0)
	nullTyped := verif.Choose("typed-null", 0, 1) == 1
	row := []byte{OkPacket, 0}
	row = append(row, 7, 0, 0, 0) // id: LONG 7
	if nullTyped {
		bitmap |= 1 << 3
	} else {
		row = append(row, value...)
	}
	row[1] = bitmap
	row = append(row, 2)
	row = append(row, verif.Bytes("plain", 2)...)
	fields := []*ColumnDescription{{Name: []byte("id"), Type: base_mysql.TypeLong}, {Name: []byte("n"), Type: k.t}, {Name: []byte("plain"), Type: base_mysql.TypeVarString}}
	out, err := h.processBinaryDataRow(ctx, verifDup(row), fields)
	verif.Reach("row-processed")
	verif.Assert(err == nil, "well-formed-row-accepted")
	if err != nil {
		return
	}
	verif.Assert(len(out) == len(row), "relayed-row-length")
	verif.Assert(verif.Eq(out, row), "relayed-row-unchanged")
}

// VerifC09_MySQLColumnSpelling: MySQL column names are case-insensitive. However the client spells the searchable
// column in the condition (lower, mixed or upper case, with or without the table name), the search is forwarded as
// a comparison with the stored index and without the value.
func VerifC09_MySQLColumnSpelling() {
	store := verifKeys()
	env := config.CryptoEnvelopeTypeAcraBlock
	setting := &config.BasicColumnEncryptionSetting{Name: "secret", UsedClientID: "A", CryptoEnvelope: &env, Searchable: true}
	h, ctx, parser := verifProxyWith(store, "A", setting)
	lit := verifMarker("literal", 2)
	obj, changed, err := h.queryObserverManager.OnQuery(ctx, emysql.NewOnQueryObjectFromQuery(verifFill("insert into t (id, secret, plain) values (1, '%s', 'keep')", lit), parser))
	if err != nil || !changed {
		verif.Assert(false, "write-rewritten")
		return
	}
	stored, ok := verifStoredHexLiteral(obj.Query())
	if !ok {
		verif.Assert(false, "protected-value-is-a-hex-literal")
		return
	}
	spellings := []string{"secret", "Secret", "SECRET", "t.Secret", "t.secret"}
	col := spellings[verif.Choose("spelling", 0, len(spellings)-1)]
	sobj, changed, err := h.queryObserverManager.OnQuery(ctx, emysql.NewOnQueryObjectFromQuery(verifFill("select id from t where "+col+" = '%s'", lit), parser))
	verif.Reach("search-observed")
	verif.Assert(err == nil && changed, "search-rewritten")
	if err != nil || !changed {
		return
	}
	fwd := sobj.Query()
	verif.Assert(!verif.Contains([]byte(fwd), lit), "search-value-not-forwarded")
	index, ok := verifHexNumber(fwd)
	verif.Assert(ok, "search-compares-with-a-hex-number")
	if ok {
		verif.Assert(len(index) > 0 && len(index) <= len(stored) && verif.Eq(index, stored[:len(index)]), "search-index-is-the-stored-prefix")
	}
}

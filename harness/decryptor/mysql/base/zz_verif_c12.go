//go:build verif

package base

import "github.com/cossacklabs/acra/zz_verif/verif"

// VerifC12_LEIRoundTrip: LengthEncodedInt(PutLengthEncodedInt(x)) == (x, false, len, nil) for every uint64.
func VerifC12_LEIRoundTrip() {
	x := verif.U64("x")
	enc := PutLengthEncodedInt(x)
	num, isNull, n, err := LengthEncodedInt(enc)
	verif.Reach("decoded")
	verif.Assert(err == nil, "lei-no-error")
	verif.Assert(!isNull, "lei-not-null")
	verif.Assert(num == x, "lei-value")
	verif.Assert(n == len(enc), "lei-consumed")
	// minimal encoding: the boundaries 250/251, 2^16, 2^24
	if x <= 250 {
		verif.Assert(len(enc) == 1, "lei-len1")
	} else if x <= 0xffff {
		verif.Assert(len(enc) == 3, "lei-len3")
	} else if x <= 0xffffff {
		verif.Assert(len(enc) == 4, "lei-len4")
	} else {
		verif.Assert(len(enc) == 9, "lei-len9")
	}
}

// VerifC14_LengthEncodedString: no input makes the length-encoded readers panic.
func VerifC14_LengthEncodedString() {
	n := verif.Choose("n", 0, 10)
	d := verif.Bytes("d", n)
	LengthEncodedString(d)
	verif.Reach("les-returned")
	SkipLengthEncodedString(d)
	verif.Reach("skip-returned")
}

//go:build verif

package postgresql

import (
	"bufio"
	"bytes"
	"encoding/binary"

	"github.com/jackc/pgx/v5/pgproto3"
	"github.com/sirupsen/logrus"

	"github.com/cossacklabs/acra/decryptor/base"
	"github.com/cossacklabs/acra/zz_verif/verif"
)

func verifDup(b []byte) []byte { return append([]byte{}, b...) }

func verifHandler(wire []byte) (*PacketHandler, *bytes.Buffer) {
	out := &bytes.Buffer{}
	h, err := NewDbSidePacketHandler(bytes.NewReader(wire), bufio.NewWriter(out), logrus.NewEntry(logrus.StandardLogger()))
	if err != nil {
		panic("handler")
	}
	return h, out
}

func verifFrame(tag byte, body []byte) []byte {
	wire := []byte{tag, 0, 0, 0, 0}
	binary.BigEndian.PutUint32(wire[1:], uint32(len(body)+4))
	return append(wire, body...)
}

// VerifC12_PgRelayIdentity: a message Acra does not change is relayed byte for byte (any tag, any body).
func VerifC12_PgRelayIdentity() {
	hi := 8
	if verif.Tier() == 1 {
		hi = 24
	}
	body := verif.Bytes("body", verif.Choose("n", 0, hi))
	tag := verif.U8("tag")
	verif.Assume(tag != 0) // 0 is not a message type; the handler uses it for "startup packet without type byte"
	wire := verifFrame(tag, body)
	h, out := verifHandler(verifDup(wire))
	err := h.ReadPacket()
	verif.Assert(err == nil, "read-no-error")
	if err != nil {
		return
	}
	m, err := h.Marshal()
	verif.Reach("marshalled")
	verif.Assert(err == nil, "marshal-no-error")
	verif.Assert(verif.Eq(m, wire), "relay-identity")
	verif.Assert(h.sendPacket() == nil, "send-no-error")
	verif.Assert(verif.Eq(out.Bytes(), wire), "sent-bytes-identity")
}

// column shapes: 0 = NULL, 1 = empty, 2.. = k-1 arbitrary bytes
func verifColumn(name string, shape int) (lenField []byte, data []byte) {
	lenField = make([]byte, 4)
	switch shape {
	case 0:
		binary.BigEndian.PutUint32(lenField, 0xffffffff)
		return lenField, nil
	default:
		data = verif.Bytes(name, shape-1)
		binary.BigEndian.PutUint32(lenField, uint32(shape-1))
		return lenField, data
	}
}

// VerifC12_PgDataRowRewrite: a DataRow with NULL / empty / non-empty columns where an arbitrary subset of columns is
// replaced by values of another length stays well-formed: re-decoded by an independent codec (pgproto3) it has the
// same column count, NULLs preserved, untouched columns identical, replaced ones equal to the new value, and the
// declared message length equals the actual length.
func VerifC12_PgDataRowRewrite() {
	ncol := verif.Choose("ncol", 1, 2+verif.Tier())
	body := []byte{0, byte(ncol)}
	shapes := make([]int, ncol)
	orig := make([][]byte, ncol)
	for i := 0; i < ncol; i++ {
		shapes[i] = verif.Choose("shape"+string(rune('0'+i)), 0, 3)
		lf, d := verifColumn("col"+string(rune('0'+i)), shapes[i])
		orig[i] = d
		body = append(append(body, lf...), d...)
	}
	wire := verifFrame('D', body)
	h, _ := verifHandler(verifDup(wire))
	if err := h.ReadPacket(); err != nil {
		verif.Assert(false, "datarow-read")
		return
	}
	verif.Assert(h.IsDataRow(), "is-datarow")
	if err := h.parseColumns(nil); err != nil {
		verif.Assert(false, "datarow-parse")
		return
	}
	verif.Assert(h.columnCount == ncol, "column-count-parsed")
	repl := make([]bool, ncol)
	newv := make([][]byte, ncol)
	for i := 0; i < ncol; i++ {
		verif.Assert(h.Columns[i].IsNull() == (shapes[i] == 0), "null-flag-parsed")
		if shapes[i] != 0 && verif.Choose("replace"+string(rune('0'+i)), 0, 1) == 1 {
			repl[i] = true
			newv[i] = verif.Bytes("new"+string(rune('0'+i)), verif.Choose("newlen"+string(rune('0'+i)), 0, 3))
			h.Columns[i].SetData(verifDup(newv[i]))
		}
	}
	h.updateDataFromColumns(nil)
	m, err := h.Marshal()
	verif.Reach("rewritten")
	verif.Assert(err == nil, "marshal-no-error")
	verif.Assert(m[0] == 'D', "tag-kept")
	verif.Assert(int(binary.BigEndian.Uint32(m[1:5])) == len(m)-1, "declared-length-is-actual-length")
	var dr pgproto3.DataRow
	if err := dr.Decode(m[5:]); err != nil {
		verif.Assert(false, "independent-decode")
		return
	}
	verif.Assert(len(dr.Values) == ncol, "column-count-preserved")
	for i := 0; i < ncol; i++ {
		switch {
		case shapes[i] == 0:
			verif.Assert(dr.Values[i] == nil, "null-preserved")
		case repl[i]:
			verif.Assert(dr.Values[i] != nil, "replaced-not-null")
			verif.Assert(verif.Eq(dr.Values[i], newv[i]), "replaced-value")
		default:
			verif.Assert(dr.Values[i] != nil, "untouched-not-null")
			verif.Assert(verif.Eq(dr.Values[i], orig[i]), "untouched-identical")
		}
	}
}

// VerifC12_PgBindRewrite: Bind with NULL / empty / non-empty parameters: parse + marshal is the identity, and after
// replacing one parameter through the BoundValue API the other parameters keep their exact bytes and NULL-ness.
func VerifC12_PgBindRewrite() {
	np := verif.Choose("np", 1, 2+verif.Tier())
	body := []byte{'p', 0, 's', 0}  // portal "p", statement "s"
	body = append(body, 0, 1, 0, 0) // one format code: text
	body = append(body, 0, byte(np))
	shapes := make([]int, np)
	orig := make([][]byte, np)
	for i := 0; i < np; i++ {
		shapes[i] = verif.Choose("shape"+string(rune('0'+i)), 0, 3)
		lf, d := verifColumn("par"+string(rune('0'+i)), shapes[i])
		orig[i] = d
		body = append(append(body, lf...), d...)
	}
	body = append(body, 0, 0) // no result formats
	bp, err := NewBindPacket(verifDup(body))
	verif.Assert(err == nil, "bind-parse")
	if err != nil {
		return
	}
	var buf bytes.Buffer
	_, err = bp.MarshalInto(&buf)
	verif.Assert(err == nil, "bind-marshal")
	verif.Assert(verif.Eq(buf.Bytes(), body), "bind-relay-identity")
	params, err := bp.GetParameters()
	verif.Assert(err == nil, "bind-parameters")
	if err != nil {
		return
	}
	k := verif.Choose("changed", 0, np-1)
	newv := verif.Bytes("new", verif.Choose("newlen", 1, 3))
	params[k].SetData(verifDup(newv), nil)
	bp.SetParameters(params)
	buf.Reset()
	_, err = bp.MarshalInto(&buf)
	verif.Reach("bind-rewritten")
	verif.Assert(err == nil, "bind-remarshal")
	var pb pgproto3.Bind
	if err := pb.Decode(buf.Bytes()); err != nil {
		verif.Assert(false, "bind-independent-decode")
		return
	}
	verif.Assert(len(pb.Parameters) == np, "parameter-count-preserved")
	for i := 0; i < np; i++ {
		switch {
		case i == k:
			verif.Assert(verif.Eq(pb.Parameters[i], newv), "changed-parameter")
		case shapes[i] == 0:
			verif.Assert(pb.Parameters[i] == nil, "null-parameter-preserved")
		default:
			verif.Assert(pb.Parameters[i] != nil, "non-null-parameter-stays-non-null")
			verif.Assert(verif.Eq(pb.Parameters[i], orig[i]), "untouched-parameter-identical")
		}
	}
	_ = base.TextFormat
}

// VerifC12_PgQueryRewrite: ReplaceQuery on a simple Query and on a Parse message keeps the framing consistent.
func VerifC12_PgQueryRewrite() {
	q := verif.Bytes("q", verif.Choose("n", 0, 3))
	for i := range q {
		verif.Assume(q[i] != 0)
	}
	nq := verif.Bytes("nq", verif.Choose("m", 0, 4))
	for i := range nq {
		verif.Assume(nq[i] != 0)
	}
	wire := verifFrame('Q', append(verifDup(q), 0))
	h, _ := verifHandler(verifDup(wire))
	if err := h.ReadPacket(); err != nil {
		verif.Assert(false, "query-read")
		return
	}
	got, err := h.GetSimpleQuery()
	verif.Assert(err == nil, "query-get")
	verif.Assert(verif.Eq([]byte(got), q), "query-text")
	h.ReplaceQuery(string(nq))
	m, _ := h.Marshal()
	verif.Reach("query-rewritten")
	verif.Assert(int(binary.BigEndian.Uint32(m[1:5])) == len(m)-1, "query-declared-length")
	verif.Assert(verif.Eq(m[5:], append(verifDup(nq), 0)), "query-new-text-terminated")
}

// VerifC14_PgReadPacketHeader: an arbitrary tag and length field followed by a short body never panics the reader
// and never makes it reserve memory beyond what the input can justify.
func VerifC14_PgReadPacketHeader() {
	hdr := verif.Bytes("hdr", 5)
	body := verif.Bytes("body", verif.Choose("n", 0, 3))
	h, _ := verifHandler(append(verifDup(hdr), body...))
	err := h.ReadPacket()
	verif.Reach("read-returned")
	if err == nil {
		h.Marshal()
		if h.IsSimpleQuery() {
			h.GetSimpleQuery()
		}
	}
}

// VerifC14_PgClientPacket: the client-side general packet reader with arbitrary bytes.
func VerifC14_PgClientPacket() {
	data := verif.Bytes("data", verif.Choose("n", 0, 8))
	out := &bytes.Buffer{}
	h, _ := NewClientSidePacketHandler(bytes.NewReader(data), bufio.NewWriter(out), logrus.NewEntry(logrus.StandardLogger()))
	h.started = true
	err := h.ReadClientPacket()
	verif.Reach("client-read-returned")
	if err == nil {
		h.Marshal()
	}
}

// VerifC14_PgDecoders: Parse / Bind / Execute / DataRow decoders over arbitrary bytes.
func VerifC14_PgDecoders() {
	hi := 10
	if verif.Tier() == 1 {
		hi = 20
	}
	data := verif.Bytes("data", verif.Choose("n", 0, hi))
	which := verif.Choose("decoder", 0, 3)
	switch which {
	case 0:
		NewParsePacket(verifDup(data))
	case 1:
		// Bind: empty portal and statement names, then everything arbitrary; no parameter format codes, parameter count bounded to 3
		// (every count forks one path per value)
		if len(data) >= 4 {
			verif.Assume(verif.And(data[0] == 0, data[1] == 0, data[2] == 0, data[3] <= 3))
		}
		bind := append([]byte{0, 0}, data...)
		if bp, err := NewBindPacket(bind); err == nil {
			bp.GetParameters()
			bp.GetResultFormats()
		}
	case 2:
		NewExecutePacket(verifDup(data))
	case 3:
		if len(data) >= 2 {
			h, _ := verifHandler(verifFrame('D', data))
			if h.ReadPacket() == nil {
				h.parseColumns(nil)
			}
		}
	}
	verif.Reach("decoder-returned")
}

//go:build verif

package types

import (
	"context"
	"encoding/binary"
	"encoding/hex"
	"strconv"

	"github.com/cossacklabs/acra/decryptor/base"
	"github.com/cossacklabs/acra/encryptor/base/config/common"
	"github.com/cossacklabs/acra/zz_verif/verif"
)

type verifFormat struct {
	binary bool
	binOp  bool
	def    *string
	onFail common.ResponseOnFail
	oid    uint32
}

func (f *verifFormat) IsBinaryFormat() bool                     { return f.binary }
func (f *verifFormat) IsBinaryDataOperation() bool              { return f.binOp }
func (f *verifFormat) GetDefaultDataValue() *string             { return f.def }
func (f *verifFormat) GetDBDataTypeID() uint32                  { return f.oid }
func (f *verifFormat) GetColumnName() string                    { return "col" }
func (f *verifFormat) GetResponseOnFail() common.ResponseOnFail { return f.onFail }

func verifDup(b []byte) []byte { return append([]byte{}, b...) }

// VerifC19_Int4RoundTrip: binary int4 -> SQL text -> binary int4 is the identity for all 2^32 values, and the
// text form is the decimal spelling of the sign-extended value (checked through the int8 encoder agreeing with it).
func VerifC19_Int4RoundTrip() {
	enc := &Int4DataTypeEncoder{}
	f := &verifFormat{binary: true}
	raw := verif.Bytes("raw", 4)
	ctx := context.Background()
	_, text, err := enc.Decode(ctx, verifDup(raw), f)
	verif.Assert(err == nil, "decode-no-error")
	_, back, err := enc.Encode(base.MarkDecryptedContext(ctx), verifDup(text), f)
	verif.Reach("int4-roundtrip")
	verif.Assert(err == nil, "encode-no-error")
	verif.Assert(verif.Eq(back, raw), "int4-binary-roundtrip")
	// text result format: the decoded text is handed out as is
	_, same, err := enc.Encode(base.MarkDecryptedContext(ctx), verifDup(text), &verifFormat{binary: false})
	verif.Assert(err == nil, "encode-text-no-error")
	verif.Assert(verif.Eq(same, text), "int4-text-unchanged")
	// the int8 encoder reading the same text yields the sign-extended value
	_, wide, err := (&Int8DataTypeEncoder{}).Encode(base.MarkDecryptedContext(ctx), verifDup(text), f)
	verif.Assert(err == nil, "encode8-no-error")
	want := make([]byte, 8)
	binary.BigEndian.PutUint64(want, uint64(int64(int32(binary.BigEndian.Uint32(raw)))))
	verif.Assert(verif.Eq(wide, want), "int4-sign-extension")
}

// VerifC19_Int8RoundTrip: the same for all 2^64 values of int8.
func VerifC19_Int8RoundTrip() {
	enc := &Int8DataTypeEncoder{}
	f := &verifFormat{binary: true}
	raw := verif.Bytes("raw", 8)
	ctx := context.Background()
	_, text, err := enc.Decode(ctx, verifDup(raw), f)
	verif.Assert(err == nil, "decode-no-error")
	_, back, err := enc.Encode(base.MarkDecryptedContext(ctx), verifDup(text), f)
	verif.Reach("int8-roundtrip")
	verif.Assert(err == nil, "encode-no-error")
	verif.Assert(verif.Eq(back, raw), "int8-binary-roundtrip")
	// an int8 text outside the int32 range must not be squeezed into an int4 column
	_, out4, err := (&Int4DataTypeEncoder{}).Encode(base.MarkDecryptedContext(ctx), verifDup(text), f)
	v := int64(binary.BigEndian.Uint64(raw))
	if err == nil && len(out4) == 4 {
		verif.Assert(verif.And(v >= -2147483648, v <= 2147483647), "int4-encode-only-in-range")
	}
}

// VerifC19_FailurePolicy: when the value could not be revealed the client receives exactly what the policy says:
// the stored bytes (ciphertext), the configured default encoded in the requested format, or an encoding error.
func VerifC19_FailurePolicy() {
	stored := []byte{0xf0, 0x9f, 0x01, 0x7a} // not revealed: still ciphertext-like bytes
	ctx := context.Background()
	binaryFmt := verif.Choose("binary", 0, 1) == 1
	typ := verif.Choose("type", 0, 3)
	policy := verif.Choose("policy", 0, 2)
	f := &verifFormat{binary: binaryFmt}
	var want []byte
	switch typ {
	case 0, 1: // int4 / int8
		var defText string
		if typ == 0 {
			dv := verif.I32("default")
			defText = strconv.FormatInt(int64(dv), 10)
			want = make([]byte, 4)
			binary.BigEndian.PutUint32(want, uint32(dv))
		} else {
			dv := verif.I64("default")
			defText = strconv.FormatInt(dv, 10)
			want = make([]byte, 8)
			binary.BigEndian.PutUint64(want, uint64(dv))
		}
		if !binaryFmt {
			want = []byte(defText)
		}
		f.def = &defText
	case 2, 3: // text / bytea: default is arbitrary text of 0..2 bytes (ASCII)
		db := verif.Bytes("deftext", verif.Choose("deflen", 0, 2))
		for i := range db {
			verif.Assume(db[i] < 0x80)
		}
		defText := string(db)
		f.def = &defText
		want = db
	}
	switch policy {
	case 0:
		f.onFail = common.ResponseOnFailCiphertext
	case 1:
		f.onFail = common.ResponseOnFailDefault
	case 2:
		f.onFail = common.ResponseOnFailError
	}
	var out []byte
	var err error
	switch typ {
	case 0:
		_, out, err = (&Int4DataTypeEncoder{}).Encode(ctx, verifDup(stored), f)
	case 1:
		_, out, err = (&Int8DataTypeEncoder{}).Encode(ctx, verifDup(stored), f)
	case 2:
		_, out, err = (&TextDataType{}).Encode(ctx, verifDup(stored), f)
	case 3:
		if policy == 1 {
			// bytea defaults are configured as base64 text: the empty value, one byte, two bytes
			defs := []struct {
				b64 string
				raw []byte
			}{{"", []byte{}}, {"QQ==", []byte("A")}, {"QUI=", []byte("AB")}}
			d := defs[verif.Choose("bytea-default", 0, len(defs)-1)]
			b64 := d.b64
			f.def = &b64
			want = d.raw
			if !binaryFmt {
				want = append([]byte("\\x"), []byte(hex.EncodeToString(d.raw))...)
			}
		}
		_, out, err = NewByteaDataTypeEncoder().Encode(ctx, verifDup(stored), f)
	}
	verif.Reach("policy-applied")
	switch policy {
	case 0:
		verif.Assert(err == nil, "ciphertext-policy-no-error")
		if typ == 3 && !binaryFmt {
			return // text-format bytea is re-encoded as hex; checked by C12's codec round trip
		}
		verif.Assert(verif.Eq(out, stored), "ciphertext-policy-returns-stored-bytes")
	case 1:
		verif.Assert(err == nil, "default-policy-no-error")
		verif.Assert(verif.Eq(out, want), "default-policy-returns-encoded-default")
	case 2:
		verif.Assert(err != nil, "error-policy-returns-error")
		_, isEnc := err.(*base.EncodingError)
		verif.Assert(isEnc, "error-policy-encoding-error")
	}
}

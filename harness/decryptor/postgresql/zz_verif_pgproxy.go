//go:build verif

package postgresql

import (
	"bufio"
	"bytes"
	"context"
	"encoding/binary"
	"encoding/hex"
	"net"
	"strings"

	"github.com/sirupsen/logrus"

	acracensor "github.com/cossacklabs/acra/acra-censor"
	"github.com/cossacklabs/acra/crypto"
	"github.com/cossacklabs/acra/decryptor/base"
	"github.com/cossacklabs/acra/encryptor/base/config"
	"github.com/cossacklabs/acra/sqlparser"
	"github.com/cossacklabs/acra/zz_verif/verif"
	"github.com/cossacklabs/acra/zz_verif/vks"
	"github.com/cossacklabs/themis/gothemis/keys"
)

// ---- a session without sockets: the harness plays client and database and moves the packets itself ----

type verifSession struct {
	ctx  context.Context
	data map[string]interface{}
	ps   interface{}
}

func (s *verifSession) Context() context.Context             { return s.ctx }
func (s *verifSession) ClientConnection() net.Conn           { return nil }
func (s *verifSession) DatabaseConnection() net.Conn         { return nil }
func (s *verifSession) ProtocolState() interface{}           { return s.ps }
func (s *verifSession) SetProtocolState(st interface{})      { s.ps = st }
func (s *verifSession) GetData(k string) (interface{}, bool) { v, ok := s.data[k]; return v, ok }
func (s *verifSession) SetData(k string, v interface{})      { s.data[k] = v }
func (s *verifSession) DeleteData(k string)                  { delete(s.data, k) }
func (s *verifSession) HasData(k string) bool                { _, ok := s.data[k]; return ok }

func verifPgKeys() *vks.Store { return verifPgKeysT(verif.Tier() == 1) }

func verifPgKeysT(symbolic bool) *vks.Store {
	s := vks.New()
	ka := []byte("0123456789abcdef0123456789abcdeA")
	kb := []byte("0123456789abcdef0123456789abcdeB")
	if symbolic {
		ka = verif.Bytes("symA", 32)
		kb = verif.Bytes("symB", 32)
		verif.Assume(!verif.Eq(ka, kb))
	}
	s.AddSym("A", ka)
	s.AddSym("B", kb)
	s.HMAC["A"] = []byte("hmac-key-of-client-A-0123456789ab")
	s.HMAC["B"] = []byte("hmac-key-of-client-B-0123456789ab")
	for _, id := range []string{"A", "B"} {
		kp, _ := keys.New(keys.TypeEC)
		s.AddPair(id, kp)
	}
	return s
}

// verifPg is one client connection as acra-server sets it up: the real proxy factory wires query observers and
// column subscribers from the schema (table t: id, secret, plain; secret protected for client A).
type verifPg struct {
	proxy  *PgProxy
	ctx    context.Context
	client *PacketHandler
	db     *PacketHandler
	toDB   *bytes.Buffer
	toCl   *bytes.Buffer
	cin    *bytes.Buffer
	din    *bytes.Buffer
	logger *logrus.Entry
}

func verifNewPg(store *vks.Store, client string, envelope config.CryptoEnvelopeType) *verifPg {
	env := envelope
	return verifNewPgWith(store, client, &config.BasicColumnEncryptionSetting{Name: "secret", UsedClientID: "A", CryptoEnvelope: &env})
}

func verifNewPgWith(store *vks.Store, client string, settings0 ...*config.BasicColumnEncryptionSetting) *verifPg {
	crypto.InitRegistry(nil)
	var cps []*config.BasicColumnEncryptionSetting
	for _, s := range settings0 {
		cp := *s
		cps = append(cps, &cp)
	}
	schema, err := config.VerifNewStore(false, "t", []string{"id", "secret", "plain"}, cps...)
	if err != nil {
		panic("schema: " + err.Error())
	}
	parser := sqlparser.New(sqlparser.ModeStrict)
	setting := base.NewProxySetting(parser, schema, store, nil, acracensor.NewAcraCensor(), nil)
	factory, err := NewProxyFactory(setting, store, nil)
	if err != nil {
		panic("factory")
	}
	ctx := base.SetAccessContextToContext(context.Background(), base.NewAccessContext(base.WithClientID([]byte(client))))
	sess := &verifSession{data: map[string]interface{}{}}
	ctx = base.SetClientSessionToContext(ctx, sess)
	sess.ctx = ctx
	p, err := factory.New([]byte(client), sess)
	if err != nil {
		panic("proxy: " + err.Error())
	}
	v := &verifPg{proxy: p.(*PgProxy), ctx: ctx, toDB: &bytes.Buffer{}, toCl: &bytes.Buffer{}, cin: &bytes.Buffer{}, din: &bytes.Buffer{},
		logger: logrus.NewEntry(logrus.StandardLogger())}
	v.client, err = NewClientSidePacketHandler(v.cin, bufio.NewWriter(v.toDB), v.logger)
	if err != nil {
		panic("client handler")
	}
	v.client.started = true // the startup exchange is over
	v.db, err = NewDbSidePacketHandler(v.din, bufio.NewWriter(v.toCl), v.logger)
	if err != nil {
		panic("db handler")
	}
	return v
}

// fromClient moves one client packet through the proxy as the loop in ProxyClientConnection does and returns what
// is forwarded to the database.
func (v *verifPg) fromClient(wire []byte) ([]byte, bool, error) {
	v.cin.Write(wire)
	v.toDB.Reset()
	v.client.Reset()
	if err := v.client.ReadClientPacket(); err != nil {
		return nil, false, err
	}
	censored, err := v.proxy.handleClientPacket(v.ctx, v.client, v.logger)
	if err != nil || censored {
		return nil, censored, err
	}
	if err := v.client.sendPacket(); err != nil {
		return nil, false, err
	}
	return verifDup(v.toDB.Bytes()), false, nil
}

// fromDB moves one database packet through the proxy as the serving state of ProxyDatabaseConnection does.
func (v *verifPg) fromDB(wire []byte) ([]byte, error) {
	v.din.Write(wire)
	v.toCl.Reset()
	v.db.Reset()
	if err := v.db.ReadPacket(); err != nil {
		return nil, err
	}
	if err := v.proxy.handleDatabasePacket(v.ctx, v.db, v.logger); err != nil {
		return nil, err
	}
	if err := v.db.sendPacket(); err != nil {
		return nil, err
	}
	return verifDup(v.toCl.Bytes()), nil
}

func verifQuery(q []byte) []byte { return verifFrame('Q', append(verifDup(q), 0)) }

func verifCommandComplete(tag string) []byte { return verifFrame('C', append([]byte(tag), 0)) }

func verifReady() []byte { return verifFrame('Z', []byte{'I'}) }

func verifRowDescription(names ...string) []byte {
	body := []byte{0, byte(len(names))}
	for i, n := range names {
		body = append(body, n...)
		body = append(body, 0)
		oid := uint32(25) // text
		if n == "secret" {
			oid = 17 // bytea
		}
		f := make([]byte, 18)
		binary.BigEndian.PutUint32(f[0:], 16384) // table oid
		binary.BigEndian.PutUint16(f[4:], uint16(i+1))
		binary.BigEndian.PutUint32(f[6:], oid)
		binary.BigEndian.PutUint16(f[10:], 0xffff)
		binary.BigEndian.PutUint32(f[12:], 0xffffffff)
		binary.BigEndian.PutUint16(f[16:], 0) // text format
		body = append(body, f...)
	}
	return verifFrame('T', body)
}

func verifDataRow(cols ...[]byte) []byte {
	body := []byte{0, byte(len(cols))}
	for _, c := range cols {
		l := make([]byte, 4)
		if c == nil {
			binary.BigEndian.PutUint32(l, 0xffffffff)
		} else {
			binary.BigEndian.PutUint32(l, uint32(len(c)))
		}
		body = append(body, l...)
		body = append(body, c...)
	}
	return verifFrame('D', body)
}

// verifPgMarker: n symbolic letters out of "jkqvwxyz" — no three of them in a row occur in the SQL text the
// deparser prints for these statements (keywords are upper case, identifiers are id/secret/plain/substr/...).
func verifPgMarker(name string, n int) []byte {
	const alphabet = "jkqvwxyz"
	m := verif.Bytes(name, n)
	for i := range m {
		m[i] = alphabet[m[i]&7]
	}
	return m
}

func verifPgHex(b []byte) []byte {
	out := []byte{'\\', 'x'}
	return append(out, hex.EncodeToString(b)...)
}

func verifSplice(skel string, lit []byte) []byte {
	i := strings.Index(skel, "%s")
	out := append([]byte{}, skel[:i]...)
	out = append(out, lit...)
	return append(out, skel[i+2:]...)
}

var verifPgWrites = []string{
	"insert into t (id, secret, plain) values (1, '%s', 'keep')",
	"insert into t values (1, '%s', 'keep')",
	"insert into t (secret, plain) values ('%s', 'keep'), ('other', 'keep')",
	"update t set secret = '%s', plain = 'keep' where id = 1",
	"insert into t (id, secret, plain) values (1, '%s'::bytea, 'keep') returning id",
}

// VerifC04_PgSimpleWriteThenRead: simple protocol. A literal written into the protected column is forwarded only in
// protected form (the Query packet sent to the database is well formed, does not contain the literal, keeps the
// uncovered literal); the stored value read back through the proxy is the original for the owner and the stored
// bytes for a client with other keys.
func VerifC04_PgSimpleWriteThenRead() {
	store := verifPgKeys()
	envelope := config.CryptoEnvelopeTypeAcraBlock
	if verif.Choose("envelope", 0, 1) == 1 {
		envelope = config.CryptoEnvelopeTypeAcraStruct
	}
	w := verifNewPg(store, "A", envelope)
	k := verif.Choose("statement", 0, len(verifPgWrites)-1)
	lit := verifPgMarker("literal", 3)
	q := verifSplice(verifPgWrites[k], lit)
	fwd, censored, err := w.fromClient(verifQuery(q))
	verif.Assert(err == nil && !censored, "write-forwarded")
	if err != nil || censored {
		return
	}
	verif.Reach("forwarded")
	// framing of the forwarded Query packet
	verif.Assert(len(fwd) > 6 && fwd[0] == 'Q', "forwarded-is-a-query-packet")
	if len(fwd) <= 6 {
		return
	}
	verif.Assert(int(binary.BigEndian.Uint32(fwd[1:5])) == len(fwd)-1, "forwarded-length-field")
	verif.Assert(fwd[len(fwd)-1] == 0, "forwarded-terminated")
	text := fwd[5 : len(fwd)-1]
	verif.Assert(!verif.Contains(text, lit), "plaintext-not-forwarded")
	verif.Assert(bytes.Contains(text, []byte("'keep'")), "uncovered-literal-unchanged")
	// the database stores what the bytea literal E'\\x<hex>' denotes
	start := bytes.Index(text, []byte(`\\x`))
	verif.Assert(start >= 0, "protected-value-is-a-hex-bytea-literal")
	if start < 0 {
		return
	}
	end := bytes.IndexByte(text[start+3:], '\'')
	if end < 0 {
		verif.Assert(false, "hex-literal-terminated")
		return
	}
	stored, err := hex.DecodeString(string(text[start+3 : start+3+end]))
	verif.Assert(err == nil, "hex-literal-decodes")
	if err != nil {
		return
	}
	for _, p := range [][]byte{verifCommandComplete("INSERT 0 1"), verifReady()} {
		out, err := w.fromDB(p)
		verif.Assert(err == nil && verif.Eq(out, p), "completion-relayed-unchanged")
	}

	reader := "A"
	r := w
	if verif.Choose("reader", 0, 1) == 1 {
		reader = "B"
		r = verifNewPg(store, "B", envelope)
	}
	sel := verifQuery([]byte("select id, secret, plain from t"))
	fsel, censored, err := r.fromClient(sel)
	verif.Assert(err == nil && !censored && verif.Eq(fsel, sel), "select-forwarded-unchanged")
	rd := verifRowDescription("id", "secret", "plain")
	out, err := r.fromDB(rd)
	verif.Assert(err == nil && verif.Eq(out, rd), "row-description-relayed-unchanged")
	row := verifDataRow([]byte("1"), verifPgHex(stored), []byte("keep"))
	out, err = r.fromDB(verifDup(row))
	verif.Reach("row-processed")
	verif.Assert(err == nil, "row-no-error")
	if err != nil {
		return
	}
	if reader == "A" {
		verif.Assert(verif.Eq(out, verifDataRow([]byte("1"), verifPgHex(lit), []byte("keep"))), "owner-reads-original-row")
	} else {
		verif.Assert(verif.Eq(out, row), "other-client-gets-stored-row-unchanged")
	}
	for _, p := range [][]byte{verifCommandComplete("SELECT 1"), verifReady()} {
		out, err := r.fromDB(p)
		verif.Assert(err == nil && verif.Eq(out, p), "completion-relayed-unchanged")
	}
}

// VerifC04_PgUncovered: statements and rows the configuration does not cover pass in both directions unchanged.
func VerifC04_PgUncovered() {
	store := verifPgKeys()
	w := verifNewPg(store, "A", config.CryptoEnvelopeTypeAcraBlock)
	lit := verifPgMarker("literal", 3)
	skels := []string{"insert into t (id, plain) values (1, '%s')", "insert into u (secret) values ('%s')", "update t set plain = '%s' where id = 1", "select id from t where plain = '%s'", "delete from u where secret = '%s'"}
	q := verifQuery(verifSplice(skels[verif.Choose("statement", 0, len(skels)-1)], lit))
	fwd, censored, err := w.fromClient(verifDup(q))
	verif.Reach("observed")
	verif.Assert(err == nil && !censored, "forwarded")
	if err != nil || censored {
		return
	}
	verif.Assert(verif.Eq(fwd, q), "uncovered-statement-unchanged")
	// a row of a table Acra knows nothing about
	sel := verifQuery([]byte("select a, b from u"))
	if _, _, err := w.fromClient(sel); err != nil {
		return
	}
	var second []byte
	switch verif.Choose("second", 0, 2) {
	case 1:
		second = []byte{}
	case 2:
		second = verif.Bytes("b", 2)
		// bound: ASCII (the escape decoder goes through []rune, whose UTF-8 decoding the engine does not model)
		verif.Assume(verif.And(second[0] < 0x80, second[1] < 0x80))
	}
	row := verifDataRow(verifPgMarker("a", 2), second)
	out, err := w.fromDB(verifDup(row))
	verif.Assert(err == nil, "uncovered-row-no-error")
	if err == nil {
		verif.Assert(verif.Eq(out, row), "uncovered-row-unchanged")
	}
}

// ---- extended protocol ----

func verifParse(name, query string) []byte {
	body := append([]byte(name), 0)
	body = append(body, query...)
	body = append(body, 0, 0, 0) // no parameter type oids
	return verifFrame('P', body)
}

// verifBind: unnamed portal; paramFormats / resultFormats as in the protocol (empty = all text, one = for all).
func verifBind(stmt string, paramFormats []uint16, params [][]byte, resultFormats []uint16) []byte {
	body := []byte{0}
	body = append(body, stmt...)
	body = append(body, 0)
	put16 := func(v uint16) { body = append(body, byte(v>>8), byte(v)) }
	put16(uint16(len(paramFormats)))
	for _, f := range paramFormats {
		put16(f)
	}
	put16(uint16(len(params)))
	for _, p := range params {
		l := make([]byte, 4)
		binary.BigEndian.PutUint32(l, uint32(len(p)))
		body = append(body, l...)
		body = append(body, p...)
	}
	put16(uint16(len(resultFormats)))
	for _, f := range resultFormats {
		put16(f)
	}
	return verifFrame('B', body)
}

func verifExecute() []byte { return verifFrame('E', []byte{0, 0, 0, 0, 0}) }
func verifSync() []byte    { return verifFrame('S', nil) }

// verifBindParams splits the parameters out of a Bind message (independent of Acra's BindPacket code).
func verifBindParams(wire []byte) (formats []uint16, params [][]byte, ok bool) {
	if len(wire) < 5 || wire[0] != 'B' || int(binary.BigEndian.Uint32(wire[1:5])) != len(wire)-1 {
		return nil, nil, false
	}
	b := wire[5:]
	for k := 0; k < 2; k++ { // portal, statement
		i := bytes.IndexByte(b, 0)
		if i < 0 {
			return nil, nil, false
		}
		b = b[i+1:]
	}
	if len(b) < 2 {
		return nil, nil, false
	}
	nf := int(binary.BigEndian.Uint16(b))
	b = b[2:]
	for i := 0; i < nf; i++ {
		if len(b) < 2 {
			return nil, nil, false
		}
		formats = append(formats, binary.BigEndian.Uint16(b))
		b = b[2:]
	}
	if len(b) < 2 {
		return nil, nil, false
	}
	np := int(binary.BigEndian.Uint16(b))
	b = b[2:]
	for i := 0; i < np; i++ {
		if len(b) < 4 {
			return nil, nil, false
		}
		l := int(int32(binary.BigEndian.Uint32(b)))
		b = b[4:]
		if l < 0 {
			params = append(params, nil)
			continue
		}
		if l > len(b) {
			return nil, nil, false
		}
		params = append(params, b[:l])
		b = b[l:]
	}
	return formats, params, true
}

// VerifC04_PgExtendedWriteThenRead: extended protocol. A value bound to a placeholder of the protected column, in
// text or in binary parameter format, is forwarded only in protected form while the other parameters are untouched;
// read back with text or binary result format the owner gets the original value.
func VerifC04_PgExtendedWriteThenRead() {
	binaryResult := verif.Choose("result-format", 0, 1) == 1
	if binaryResult {
		// the column decoder runs every value through the escape-format decoder, which converts to []rune
		verif.FreshASCII()
	}
	store := verifPgKeysT(verif.Tier() == 1 && !binaryResult)
	envelope := config.CryptoEnvelopeTypeAcraBlock
	if verif.Choose("envelope", 0, 1) == 1 {
		envelope = config.CryptoEnvelopeTypeAcraStruct
	}
	w := verifNewPg(store, "A", envelope)
	stmts := []string{
		"insert into t (id, secret, plain) values ($1, $2, $3)",
		"insert into t values ($1, $2, $3)",
		"update t set plain = $3, secret = $2 where id = $1",
	}
	k := verif.Choose("statement", 0, len(stmts)-1)
	_, censored, err := w.fromClient(verifParse("s1", stmts[k]))
	verif.Assert(err == nil && !censored, "parse-forwarded")
	if err != nil || censored {
		return
	}
	lit := verifPgMarker("value", 3)
	var pf []uint16
	binaryParam := false
	switch verif.Choose("param-format", 0, 2) {
	case 1:
		pf = []uint16{1}
		binaryParam = true
	case 2:
		pf = []uint16{0, 1, 0}
		binaryParam = true
	}
	idParam := []byte("1")
	if len(pf) == 1 {
		idParam = []byte{0, 0, 0, 1}
	}
	bind := verifBind("s1", pf, [][]byte{idParam, lit, []byte("keep")}, nil)
	fwd, censored, err := w.fromClient(verifDup(bind))
	verif.Assert(err == nil && !censored, "bind-forwarded")
	if err != nil || censored {
		return
	}
	verif.Reach("bind-forwarded")
	formats, params, ok := verifBindParams(fwd)
	verif.Assert(ok && len(params) == 3, "forwarded-bind-well-formed")
	if !ok || len(params) != 3 {
		return
	}
	// Acra may switch the format of the parameter it rewrites; the database reads every parameter in the format the
	// forwarded message declares for it
	fmtOf := func(fs []uint16, i int) uint16 {
		switch len(fs) {
		case 0:
			return 0
		case 1:
			return fs[0]
		}
		return fs[i]
	}
	verif.Assert(len(formats) <= 1 || len(formats) == 3, "forwarded-format-codes-count")
	if len(formats) > 1 && len(formats) != 3 {
		return
	}
	verif.Assert(verif.Eq(params[0], idParam) && fmtOf(formats, 0) == fmtOf(pf, 0), "uncovered-parameter-1-unchanged")
	verif.Assert(verif.Eq(params[2], []byte("keep")) && fmtOf(formats, 2) == fmtOf(pf, 2), "uncovered-parameter-3-unchanged")
	stored := params[1]
	verif.Assert(len(stored) > len(lit) && !verif.Eq(stored[:3], lit), "protected-parameter-rewritten")
	if fmtOf(formats, 1) == 0 {
		// text format: the database reads the bytea input syntax \x<hex>; no raw byte of the value is in the message
		verif.Assert(!verif.Contains(fwd, lit), "plaintext-not-forwarded")
		verif.Assert(len(stored) >= 2 && stored[0] == '\\' && stored[1] == 'x', "text-parameter-is-hex-bytea")
		if len(stored) < 2 {
			return
		}
		stored, err = hex.DecodeString(string(stored[2:]))
		verif.Assert(err == nil, "text-parameter-hex-decodes")
		if err != nil {
			return
		}
	}
	_ = binaryParam
	for _, p := range [][]byte{verifExecute(), verifSync()} {
		out, censored, err := w.fromClient(verifDup(p))
		verif.Assert(err == nil && !censored && verif.Eq(out, p), "execute-sync-forwarded-unchanged")
	}
	for _, p := range [][]byte{verifFrame('1', nil), verifFrame('2', nil), verifCommandComplete("INSERT 0 1"), verifReady()} {
		out, err := w.fromDB(verifDup(p))
		verif.Assert(err == nil && verif.Eq(out, p), "completion-relayed-unchanged")
	}

	// read side on the same connection
	_, _, err = w.fromClient(verifParse("s2", "select id, secret, plain from t"))
	verif.Assert(err == nil, "select-parse-forwarded")
	var rf []uint16
	if binaryResult {
		rf = []uint16{0, 1, 0}
	}
	sb := verifBind("s2", nil, nil, rf)
	out, _, err := w.fromClient(verifDup(sb))
	verif.Assert(err == nil && verif.Eq(out, sb), "select-bind-forwarded-unchanged")
	if _, _, err := w.fromClient(verifExecute()); err != nil {
		verif.Assert(false, "select-execute")
		return
	}
	if _, _, err := w.fromClient(verifSync()); err != nil {
		verif.Assert(false, "select-sync")
		return
	}
	for _, p := range [][]byte{verifFrame('1', nil), verifFrame('2', nil)} {
		out, err := w.fromDB(verifDup(p))
		verif.Assert(err == nil && verif.Eq(out, p), "completion-relayed-unchanged")
	}
	col := verifPgHex(stored)
	want := verifPgHex(lit)
	if binaryResult {
		col, want = stored, lit
	}
	rd := verifRowDescription("id", "secret", "plain")
	if _, err := w.fromDB(rd); err != nil {
		verif.Assert(false, "row-description")
		return
	}
	row := verifDataRow([]byte("1"), col, []byte("keep"))
	got, err := w.fromDB(verifDup(row))
	verif.Reach("row-processed")
	verif.Assert(err == nil, "row-no-error")
	if err != nil {
		return
	}
	verif.Assert(verif.Eq(got, verifDataRow([]byte("1"), want, []byte("keep"))), "owner-reads-original-row")
}

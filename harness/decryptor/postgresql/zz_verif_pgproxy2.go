//go:build verif

package postgresql

import (
	"bytes"
	"encoding/hex"

	"github.com/cossacklabs/acra/encryptor/base/config"
	maskingCommon "github.com/cossacklabs/acra/masking/common"
	"github.com/cossacklabs/acra/zz_verif/verif"
)

// verifStoredHex extracts what the bytea literal E'\\x<hex>' in a forwarded Query packet denotes.
func verifStoredHex(fwd []byte) ([]byte, bool) {
	if len(fwd) <= 6 || fwd[0] != 'Q' {
		return nil, false
	}
	text := fwd[5 : len(fwd)-1]
	start := bytes.Index(text, []byte(`\\x`))
	if start < 0 {
		return nil, false
	}
	end := bytes.IndexByte(text[start+3:], '\'')
	if end < 0 {
		return nil, false
	}
	stored, err := hex.DecodeString(string(text[start+3 : start+3+end]))
	return stored, err == nil
}

// verifReadRow sends "select id, secret, plain from t" and one row through r and returns the row the client gets.
func verifReadRow(r *verifPg, secretColumn []byte) ([]byte, bool) {
	sel := verifQuery([]byte("select id, secret, plain from t"))
	if _, _, err := r.fromClient(sel); err != nil {
		return nil, false
	}
	if _, err := r.fromDB(verifRowDescription("id", "secret", "plain")); err != nil {
		return nil, false
	}
	out, err := r.fromDB(verifDataRow([]byte("1"), secretColumn, []byte("keep")))
	if err != nil {
		return nil, false
	}
	for _, p := range [][]byte{verifCommandComplete("SELECT 1"), verifReady()} {
		if _, err := r.fromDB(p); err != nil {
			return nil, false
		}
	}
	return out, true
}

// VerifC04_PgSearchable: a searchable column. The written literal is forwarded as hash ++ container, the owner reads
// the original back, and an equality search for the value is forwarded without the value.
func VerifC09_PgSearchable() {
	store := verifPgKeys()
	env := config.CryptoEnvelopeTypeAcraBlock
	if verif.Choose("envelope", 0, 1) == 1 {
		env = config.CryptoEnvelopeTypeAcraStruct
	}
	setting := &config.BasicColumnEncryptionSetting{Name: "secret", UsedClientID: "A", CryptoEnvelope: &env, Searchable: true}
	w := verifNewPgWith(store, "A", setting)
	lit := verifPgMarker("literal", 3)
	fwd, censored, err := w.fromClient(verifQuery(verifSplice("insert into t (id, secret, plain) values (1, '%s', 'keep')", lit)))
	verif.Assert(err == nil && !censored, "write-forwarded")
	if err != nil || censored {
		return
	}
	verif.Assert(!verif.Contains(fwd, lit), "plaintext-not-forwarded")
	stored, ok := verifStoredHex(fwd)
	verif.Assert(ok, "protected-value-is-a-hex-bytea-literal")
	if !ok {
		return
	}
	verif.Reach("forwarded")
	for _, p := range [][]byte{verifCommandComplete("INSERT 0 1"), verifReady()} {
		w.fromDB(p)
	}
	out, ok := verifReadRow(w, verifPgHex(stored))
	verif.Assert(ok, "row-no-error")
	if !ok {
		return
	}
	verif.Assert(verif.Eq(out, verifDataRow([]byte("1"), verifPgHex(lit), []byte("keep"))), "owner-reads-original-row")
	// search
	q := verifQuery(verifSplice("select id from t where secret = '%s'", lit))
	sfwd, censored, err := w.fromClient(q)
	verif.Reach("search-forwarded")
	verif.Assert(err == nil && !censored, "search-forwarded")
	if err != nil || censored {
		return
	}
	verif.Assert(!verif.Contains(sfwd, lit), "search-value-not-forwarded")
	// the search compares a prefix of the column with the hash the stored value starts with
	hash, ok := verifStoredHex(sfwd)
	verif.Assert(ok, "search-compares-with-a-hex-literal")
	if ok {
		verif.Assert(len(hash) <= len(stored) && verif.Eq(hash, stored[:len(hash)]), "search-hash-is-the-stored-prefix")
	}
}

// VerifC04_PgMasking: a masked column. The forwarded statement never carries the whole value, the owner reads the
// original, a client without the keys gets the visible window and the mask, never the hidden part.
func VerifC11_PgMasking() {
	store := verifPgKeys()
	env := config.CryptoEnvelopeTypeAcraBlock
	side := maskingCommon.PlainTextSideLeft
	if verif.Choose("side", 0, 1) == 1 {
		side = maskingCommon.PlainTextSideRight
	}
	setting := &config.BasicColumnEncryptionSetting{Name: "secret", UsedClientID: "A", CryptoEnvelope: &env,
		MaskingPattern: "##", PartialPlaintextLenBytes: 1, PlaintextSide: side}
	w := verifNewPgWith(store, "A", setting)
	lit := verifPgMarker("literal", 3)
	fwd, censored, err := w.fromClient(verifQuery(verifSplice("insert into t (id, secret, plain) values (1, '%s', 'keep')", lit)))
	verif.Assert(err == nil && !censored, "write-forwarded")
	if err != nil || censored {
		return
	}
	verif.Assert(!verif.Contains(fwd, lit), "whole-plaintext-not-forwarded")
	stored, ok := verifStoredHex(fwd)
	verif.Assert(ok, "protected-value-is-a-hex-bytea-literal")
	if !ok {
		return
	}
	verif.Reach("forwarded")
	for _, p := range [][]byte{verifCommandComplete("INSERT 0 1"), verifReady()} {
		w.fromDB(p)
	}
	r := w
	owner := verif.Choose("reader", 0, 1) == 0
	if !owner {
		r = verifNewPgWith(store, "B", setting)
	}
	out, ok := verifReadRow(r, verifPgHex(stored))
	verif.Reach("row-processed")
	verif.Assert(ok, "row-no-error")
	if !ok {
		return
	}
	if owner {
		verif.Assert(verif.Eq(out, verifDataRow([]byte("1"), verifPgHex(lit), []byte("keep"))), "owner-reads-original-row")
		return
	}
	masked := append([]byte{lit[0]}, "##"...)
	if side == maskingCommon.PlainTextSideRight {
		masked = append([]byte("##"), lit[2])
	}
	verif.Assert(verif.Eq(out, verifDataRow([]byte("1"), verifPgHex(masked), []byte("keep"))), "other-client-gets-window-and-mask")
}

// VerifC04_PgTypedText: a column declared as text (data_type str). The owner gets the text itself, a client without
// the keys gets what response_on_fail prescribes (the stored value, or the configured default), never the text.
func VerifC19_PgTypedText() {
	store := verifPgKeys()
	env := config.CryptoEnvelopeTypeAcraBlock
	setting := &config.BasicColumnEncryptionSetting{Name: "secret", UsedClientID: "A", CryptoEnvelope: &env, DataType: "str"}
	useDefault := verif.Choose("on-fail", 0, 1) == 1
	if useDefault {
		def := "n/a"
		setting.ResponseOnFail = "default_value"
		setting.DefaultDataValue = &def
	}
	w := verifNewPgWith(store, "A", setting)
	lit := verifPgMarker("literal", 3)
	fwd, censored, err := w.fromClient(verifQuery(verifSplice("insert into t (id, secret, plain) values (1, '%s', 'keep')", lit)))
	verif.Assert(err == nil && !censored, "write-forwarded")
	if err != nil || censored {
		return
	}
	verif.Assert(!verif.Contains(fwd, lit), "plaintext-not-forwarded")
	stored, ok := verifStoredHex(fwd)
	verif.Assert(ok, "protected-value-is-a-hex-bytea-literal")
	if !ok {
		return
	}
	verif.Reach("forwarded")
	for _, p := range [][]byte{verifCommandComplete("INSERT 0 1"), verifReady()} {
		w.fromDB(p)
	}
	r := w
	owner := verif.Choose("reader", 0, 1) == 0
	if !owner {
		r = verifNewPgWith(store, "B", setting)
	}
	out, ok := verifReadRow(r, verifPgHex(stored))
	verif.Reach("row-processed")
	verif.Assert(ok, "row-no-error")
	if !ok {
		return
	}
	switch {
	case owner:
		verif.Assert(verif.Eq(out, verifDataRow([]byte("1"), lit, []byte("keep"))), "owner-reads-the-text")
	case useDefault:
		verif.Assert(verif.Eq(out, verifDataRow([]byte("1"), []byte("n/a"), []byte("keep"))), "other-client-gets-the-default")
	default:
		// "ciphertext" policy: the stored value, in the text form it came in or as the bytes it denotes
		asStored := verif.Eq(out, verifDataRow([]byte("1"), verifPgHex(stored), []byte("keep")))
		asBytes := verif.Eq(out, verifDataRow([]byte("1"), stored, []byte("keep")))
		verif.Assert(verif.Or(asStored, asBytes), "other-client-gets-the-stored-value")
	}
}

//go:build verif

package postgresql

import (
	"bufio"
	"bytes"
	"context"
	"encoding/hex"
	"strconv"

	"github.com/sirupsen/logrus"

	acracensor "github.com/cossacklabs/acra/acra-censor"
	"github.com/cossacklabs/acra/acra-censor/handlers"
	"github.com/cossacklabs/acra/crypto"
	"github.com/cossacklabs/acra/decryptor/base"
	"github.com/cossacklabs/acra/logging"
	"github.com/cossacklabs/acra/sqlparser"

	"github.com/cossacklabs/acra/encryptor/base/config"
	maskingCommon "github.com/cossacklabs/acra/masking/common"
	"github.com/cossacklabs/acra/zz_verif/verif"
)

// verifStoredHex extracts what the bytea literal E'\\x<hex>' in a forwarded Query packet denotes.
func verifStoredHex(fwd []byte) ([]byte, bool) {
	if len(fwd) <= 6 || fwd[0] != 'Q' {
		return nil, false
	}
	text := fwd[5 : len(fwd)-1]
	start := bytes.Index(text, []byte(`\\x`))
	if start < 0 {
		return nil, false
	}
	end := bytes.IndexByte(text[start+3:], '\'')
	if end < 0 {
		return nil, false
	}
	stored, err := hex.DecodeString(string(text[start+3 : start+3+end]))
	return stored, err == nil
}

// verifReadRow sends "select id, secret, plain from t" and one row through r and returns the row the client gets.
func verifReadRow(r *verifPg, secretColumn []byte) ([]byte, bool) {
	sel := verifQuery([]byte("select id, secret, plain from t"))
	if _, _, err := r.fromClient(sel); err != nil {
		return nil, false
	}
	if _, err := r.fromDB(verifRowDescription("id", "secret", "plain")); err != nil {
		return nil, false
	}
	out, err := r.fromDB(verifDataRow([]byte("1"), secretColumn, []byte("keep")))
	if err != nil {
		return nil, false
	}
	for _, p := range [][]byte{verifCommandComplete("SELECT 1"), verifReady()} {
		if _, err := r.fromDB(p); err != nil {
			return nil, false
		}
	}
	return out, true
}

// VerifC04_PgSearchable: a searchable column. The written literal is forwarded as hash ++ container, the owner reads
// the original back, and an equality search for the value is forwarded without the value.
func VerifC09_PgSearchable() {
	store := verifPgKeys()
	env := config.CryptoEnvelopeTypeAcraBlock
	if verif.Choose("envelope", 0, 1) == 1 {
		env = config.CryptoEnvelopeTypeAcraStruct
	}
	setting := &config.BasicColumnEncryptionSetting{Name: "secret", UsedClientID: "A", CryptoEnvelope: &env, Searchable: true}
	w := verifNewPgWith(store, "A", setting)
	lit := verifPgMarker("literal", 3)
	fwd, censored, err := w.fromClient(verifQuery(verifSplice("insert into t (id, secret, plain) values (1, '%s', 'keep')", lit)))
	verif.Assert(err == nil && !censored, "write-forwarded")
	if err != nil || censored {
		return
	}
	verif.Assert(!verif.Contains(fwd, lit), "plaintext-not-forwarded")
	stored, ok := verifStoredHex(fwd)
	verif.Assert(ok, "protected-value-is-a-hex-bytea-literal")
	if !ok {
		return
	}
	verif.Reach("forwarded")
	for _, p := range [][]byte{verifCommandComplete("INSERT 0 1"), verifReady()} {
		w.fromDB(p)
	}
	out, ok := verifReadRow(w, verifPgHex(stored))
	verif.Assert(ok, "row-no-error")
	if !ok {
		return
	}
	verif.Assert(verif.Eq(out, verifDataRow([]byte("1"), verifPgHex(lit), []byte("keep"))), "owner-reads-original-row")
	// search
	q := verifQuery(verifSplice("select id from t where secret = '%s'", lit))
	sfwd, censored, err := w.fromClient(q)
	verif.Reach("search-forwarded")
	verif.Assert(err == nil && !censored, "search-forwarded")
	if err != nil || censored {
		return
	}
	verif.Assert(!verif.Contains(sfwd, lit), "search-value-not-forwarded")
	// the search compares a prefix of the column with the hash the stored value starts with
	hash, ok := verifStoredHex(sfwd)
	verif.Assert(ok, "search-compares-with-a-hex-literal")
	if ok {
		verif.Assert(len(hash) <= len(stored) && verif.Eq(hash, stored[:len(hash)]), "search-hash-is-the-stored-prefix")
	}
}

// VerifC04_PgMasking: a masked column. The forwarded statement never carries the whole value, the owner reads the
// original, a client without the keys gets the visible window and the mask, never the hidden part.
func VerifC11_PgMasking() {
	store := verifPgKeys()
	env := config.CryptoEnvelopeTypeAcraBlock
	side := maskingCommon.PlainTextSideLeft
	if verif.Choose("side", 0, 1) == 1 {
		side = maskingCommon.PlainTextSideRight
	}
	setting := &config.BasicColumnEncryptionSetting{Name: "secret", UsedClientID: "A", CryptoEnvelope: &env,
		MaskingPattern: "##", PartialPlaintextLenBytes: 1, PlaintextSide: side}
	w := verifNewPgWith(store, "A", setting)
	lit := verifPgMarker("literal", 3)
	fwd, censored, err := w.fromClient(verifQuery(verifSplice("insert into t (id, secret, plain) values (1, '%s', 'keep')", lit)))
	verif.Assert(err == nil && !censored, "write-forwarded")
	if err != nil || censored {
		return
	}
	verif.Assert(!verif.Contains(fwd, lit), "whole-plaintext-not-forwarded")
	stored, ok := verifStoredHex(fwd)
	verif.Assert(ok, "protected-value-is-a-hex-bytea-literal")
	if !ok {
		return
	}
	verif.Reach("forwarded")
	for _, p := range [][]byte{verifCommandComplete("INSERT 0 1"), verifReady()} {
		w.fromDB(p)
	}
	r := w
	owner := verif.Choose("reader", 0, 1) == 0
	if !owner {
		r = verifNewPgWith(store, "B", setting)
	}
	out, ok := verifReadRow(r, verifPgHex(stored))
	verif.Reach("row-processed")
	verif.Assert(ok, "row-no-error")
	if !ok {
		return
	}
	if owner {
		verif.Assert(verif.Eq(out, verifDataRow([]byte("1"), verifPgHex(lit), []byte("keep"))), "owner-reads-original-row")
		return
	}
	masked := append([]byte{lit[0]}, "##"...)
	if side == maskingCommon.PlainTextSideRight {
		masked = append([]byte("##"), lit[2])
	}
	verif.Assert(verif.Eq(out, verifDataRow([]byte("1"), verifPgHex(masked), []byte("keep"))), "other-client-gets-window-and-mask")
}

// VerifC04_PgTypedText: a column declared as text (data_type str). The owner gets the text itself, a client without
// the keys gets what response_on_fail prescribes (the stored value, or the configured default), never the text.
func VerifC19_PgTypedText() {
	store := verifPgKeys()
	env := config.CryptoEnvelopeTypeAcraBlock
	setting := &config.BasicColumnEncryptionSetting{Name: "secret", UsedClientID: "A", CryptoEnvelope: &env, DataType: "str"}
	useDefault := verif.Choose("on-fail", 0, 1) == 1
	if useDefault {
		def := "n/a"
		setting.ResponseOnFail = "default_value"
		setting.DefaultDataValue = &def
	}
	w := verifNewPgWith(store, "A", setting)
	lit := verifPgMarker("literal", 3)
	fwd, censored, err := w.fromClient(verifQuery(verifSplice("insert into t (id, secret, plain) values (1, '%s', 'keep')", lit)))
	verif.Assert(err == nil && !censored, "write-forwarded")
	if err != nil || censored {
		return
	}
	verif.Assert(!verif.Contains(fwd, lit), "plaintext-not-forwarded")
	stored, ok := verifStoredHex(fwd)
	verif.Assert(ok, "protected-value-is-a-hex-bytea-literal")
	if !ok {
		return
	}
	verif.Reach("forwarded")
	for _, p := range [][]byte{verifCommandComplete("INSERT 0 1"), verifReady()} {
		w.fromDB(p)
	}
	r := w
	owner := verif.Choose("reader", 0, 1) == 0
	if !owner {
		r = verifNewPgWith(store, "B", setting)
	}
	out, ok := verifReadRow(r, verifPgHex(stored))
	verif.Reach("row-processed")
	verif.Assert(ok, "row-no-error")
	if !ok {
		return
	}
	switch {
	case owner:
		verif.Assert(verif.Eq(out, verifDataRow([]byte("1"), lit, []byte("keep"))), "owner-reads-the-text")
	case useDefault:
		verif.Assert(verif.Eq(out, verifDataRow([]byte("1"), []byte("n/a"), []byte("keep"))), "other-client-gets-the-default")
	default:
		// "ciphertext" policy: the stored value, in the text form it came in or as the bytes it denotes
		asStored := verif.Eq(out, verifDataRow([]byte("1"), verifPgHex(stored), []byte("keep")))
		asBytes := verif.Eq(out, verifDataRow([]byte("1"), stored, []byte("keep")))
		verif.Assert(verif.Or(asStored, asBytes), "other-client-gets-the-stored-value")
	}
}

// VerifC05_PgProxyDropsDenied: the proxy step behind the firewall verdict. A statement the configured rules deny —
// as a simple Query or as the text of a Parse message — is not written to the database connection at all; a
// statement they allow is forwarded unchanged; and the next, allowed statement after a denied one goes through.
func VerifC05_PgProxyDropsDenied() {
	store := verifPgKeys()
	crypto.InitRegistry(nil)
	env := config.CryptoEnvelopeTypeAcraBlock
	schema, err := config.VerifNewStore(false, "t", []string{"id", "secret", "plain"},
		&config.BasicColumnEncryptionSetting{Name: "secret", UsedClientID: "A", CryptoEnvelope: &env})
	if err != nil {
		panic("schema")
	}
	censor := acracensor.NewAcraCensor()
	deny := handlers.NewDenyHandler(sqlparser.New(sqlparser.ModeStrict))
	deny.AddTables([]string{"forbidden"})
	censor.AddHandler(deny)
	parser := sqlparser.New(sqlparser.ModeStrict)
	setting := base.NewProxySetting(parser, schema, store, nil, censor, nil)
	factory, _ := NewProxyFactory(setting, store, nil)
	ctx := base.SetAccessContextToContext(context.Background(), base.NewAccessContext(base.WithClientID([]byte("A"))))
	sess := &verifSession{data: map[string]interface{}{}}
	ctx = base.SetClientSessionToContext(ctx, sess)
	sess.ctx = ctx
	p, err := factory.New([]byte("A"), sess)
	if err != nil {
		panic("proxy")
	}
	v := &verifPg{proxy: p.(*PgProxy), ctx: ctx, toDB: &bytes.Buffer{}, toCl: &bytes.Buffer{}, cin: &bytes.Buffer{}, din: &bytes.Buffer{},
		logger: logrus.NewEntry(logrus.StandardLogger())}
	v.client, _ = NewClientSidePacketHandler(v.cin, bufio.NewWriter(v.toDB), v.logger)
	v.client.started = true
	v.db, _ = NewDbSidePacketHandler(v.din, bufio.NewWriter(v.toCl), v.logger)

	lit := verifPgMarker("literal", 2)
	denied := verifSplice("select a from forbidden where b = '%s'", lit)
	allowed := verifSplice("select a from other where b = '%s'", lit)
	wrap := func(q []byte) []byte {
		if verif.Choose("as-parse", 0, 1) == 1 {
			return verifParse("s", string(q))
		}
		return verifQuery(q)
	}
	first := wrap(denied)
	fwd, censored, err := v.fromClient(first)
	verif.Reach("denied-handled")
	verif.Assert(err == nil, "denied-no-error")
	verif.Assert(censored, "denied-statement-is-censored")
	verif.Assert(len(fwd) == 0 && v.toDB.Len() == 0, "denied-statement-not-written-to-the-database")
	second := verifQuery(allowed)
	fwd, censored, err = v.fromClient(verifDup(second))
	verif.Assert(err == nil && !censored, "allowed-statement-passes")
	verif.Assert(verif.Eq(fwd, second), "allowed-statement-forwarded-unchanged")
	// the verdict belongs to the statement text, not to the prepared-statement name: a name that was accepted once
	// does not carry a denied text past the firewall later (with or without a Close in between)
	if _, censored, err := v.fromClient(verifParse("again", string(allowed))); err != nil || censored {
		verif.Assert(false, "allowed-parse-passes")
		return
	}
	if verif.Choose("close-between", 0, 1) == 1 {
		v.fromClient(verifFrame('C', append([]byte{'S'}, "again\x00"...)))
	}
	fwd, censored, err = v.fromClient(verifParse("again", string(denied)))
	verif.Reach("reused-name-handled")
	verif.Assert(err == nil && censored, "denied-text-under-a-reused-name-is-censored")
	verif.Assert(len(fwd) == 0, "denied-text-under-a-reused-name-not-written-to-the-database")
	// ... and the rejected text does not take the accepted statement's place: a Bind to that name is still processed
	// as the statement the database has (its protected parameter is encrypted)
	if _, censored, err := v.fromClient(verifParse("ins", "insert into t (id, secret, plain) values ($1, $2, $3)")); err != nil || censored {
		verif.Assert(false, "insert-parse-passes")
		return
	}
	_, censored, err = v.fromClient(verifParse("ins", "select a from forbidden where b = $1"))
	verif.Assert(err == nil && censored, "denied-text-under-the-insert-name-is-censored")
	value := verifPgMarker("value", 3)
	bfwd, censored, err := v.fromClient(verifBind("ins", nil, [][]byte{[]byte("1"), value, []byte("keep")}, nil))
	verif.Reach("bind-after-rejected-parse")
	verif.Assert(err == nil && !censored, "bind-forwarded")
	if err != nil || censored {
		return
	}
	_, params, ok := verifBindParams(bfwd)
	verif.Assert(ok && len(params) == 3, "forwarded-bind-well-formed")
	if ok && len(params) == 3 {
		verif.Assert(len(params[1]) > len(value) && !verif.Contains(params[1][:3], value), "bind-processed-as-the-accepted-statement")
		verif.Assert(verif.Eq(params[2], []byte("keep")), "uncovered-parameter-unchanged")
	}
}

// VerifC12_PgProxyRelaySequence: messages the proxy has no reason to change, sent one after another in either
// direction through the real loops, come out byte for byte and in the same order (unknown message types included).
func VerifC12_PgProxyRelaySequence() {
	store := verifPgKeys()
	v := verifNewPg(store, "A", config.CryptoEnvelopeTypeAcraBlock)
	k := 2 + verif.Tier()
	var sent, got []byte
	toDB := verif.Choose("direction", 0, 1) == 0
	for i := 0; i < k; i++ {
		tag := verif.U8("tag" + string(rune('0'+i)))
		// types the proxy inspects are exercised by the other kernels; here: everything else
		if toDB {
			verif.Assume(verif.And(tag != 0, tag != 'Q', tag != 'P', tag != 'B', tag != 'E', tag != 'X'))
		} else {
			verif.Assume(verif.And(tag != 0, tag != 'D', tag != 'T', tag != 't', tag != 'C', tag != 'I', tag != 's', tag != 'E'))
		}
		body := verif.Bytes("body"+string(rune('0'+i)), verif.Choose("n"+string(rune('0'+i)), 0, 2))
		wire := verifFrame(tag, body)
		sent = append(sent, wire...)
		var out []byte
		var err error
		if toDB {
			out, _, err = v.fromClient(verifDup(wire))
		} else {
			out, err = v.fromDB(verifDup(wire))
		}
		verif.Assert(err == nil, "relayed-without-error")
		if err != nil {
			return
		}
		got = append(got, out...)
	}
	verif.Reach("sequence-relayed")
	verif.Assert(verif.Eq(got, sent), "sequence-relayed-byte-for-byte-in-order")
}

// VerifC19_PgTypedExtendedResult: a column declared int32, read through the extended protocol. Whatever way the Bind
// message spells the result formats (none, one code for all columns, one code per column), the owner gets the
// number in the format asked for that column (text digits / 4 big-endian bytes) and the neighbours untouched.
func VerifC19_PgTypedExtendedResult() {
	store := verifPgKeys()
	env := config.CryptoEnvelopeTypeAcraBlock
	setting := &config.BasicColumnEncryptionSetting{Name: "secret", UsedClientID: "A", CryptoEnvelope: &env, DataType: "int32"}
	w := verifNewPgWith(store, "A", setting)
	v := int32(verif.U32("value"))
	verif.Assume(verif.Or(verif.And(v >= -9, v <= 9), v == -2147483648, v == 2147483647))
	text := []byte(strconv.Itoa(int(v)))
	fwd, censored, err := w.fromClient(verifQuery(verifSplice("insert into t (id, secret, plain) values (1, '%s', 'keep')", text)))
	if err != nil || censored {
		verif.Assert(false, "write-forwarded")
		return
	}
	stored, ok := verifStoredHex(fwd)
	verif.Assert(ok, "protected-value-is-a-hex-bytea-literal")
	if !ok {
		return
	}
	for _, p := range [][]byte{verifCommandComplete("INSERT 0 1"), verifReady()} {
		w.fromDB(p)
	}
	var rf []uint16
	binarySecret := true
	switch verif.Choose("result-formats", 0, 3) {
	case 0:
		rf, binarySecret = nil, false
	case 1:
		rf = []uint16{1}
	case 2:
		rf = []uint16{1, 1, 1}
	case 3:
		rf = []uint16{0, 1, 0}
	}
	allBinary := len(rf) == 1 || (len(rf) == 3 && rf[0] == 1)
	if _, _, err := w.fromClient(verifParse("s2", "select id, secret, plain from t")); err != nil {
		return
	}
	if _, _, err := w.fromClient(verifBind("s2", nil, nil, rf)); err != nil {
		return
	}
	w.fromClient(verifExecute())
	w.fromClient(verifSync())
	for _, p := range [][]byte{verifFrame('1', nil), verifFrame('2', nil)} {
		w.fromDB(p)
	}
	if _, err := w.fromDB(verifRowDescription("id", "secret", "plain")); err != nil {
		return
	}
	idCol := []byte("1")
	if allBinary {
		idCol = []byte{0, 0, 0, 1}
	}
	col := verifPgHex(stored)
	if binarySecret {
		col = stored
	}
	got, err := w.fromDB(verifDataRow(idCol, col, []byte("keep")))
	verif.Reach("row-processed")
	verif.Assert(err == nil, "row-no-error")
	if err != nil {
		return
	}
	want := text
	if binarySecret {
		u := uint32(v)
		want = []byte{byte(u >> 24), byte(u >> 16), byte(u >> 8), byte(u)}
	}
	verif.Assert(verif.Eq(got, verifDataRow(idCol, want, []byte("keep"))), "owner-gets-the-number-in-the-requested-format")
}

// VerifC16_PgProxyLogs: what the PostgreSQL proxy hands to the logger while it processes statements at debug level
// (covered and uncovered ones, a denied one, an unparseable one) never contains the literal value of the statement.
func VerifC16_PgProxyLogs() {
	verif.CaptureLogs()
	logging.SetLogLevel(logging.LogDebug)
	store := verifPgKeys()
	w := verifNewPg(store, "A", config.CryptoEnvelopeTypeAcraBlock)
	lit := verifPgMarker("literal", 3)
	skels := []string{
		"insert into t (id, secret, plain) values (1, '%s', 'keep')",
		"select id from t where plain = '%s'",
		"update u set a = '%s' where b = 1",
		"select id from t where plain = '%s' )))(((",
	}
	k := verif.Choose("statement", 0, len(skels)-1)
	q := verifQuery(verifSplice(skels[k], lit))
	w.fromClient(q)
	verif.Reach("handled")
	verif.Assert(!verif.LogContains(lit), "literal-not-in-log-messages")
	if k < 3 {
		// witness that the capture sees the proxy's debug message about this statement (with values hidden)
		verif.Assert(verif.LogContains([]byte("New query")), "log-capture-sees-the-statement-message")
		verif.Assert(verif.LogContains([]byte(" from t ")) || verif.LogContains([]byte("insert into t")) || verif.LogContains([]byte("update u")), "log-capture-sees-the-hidden-values-text")
	}
}

// VerifC05_PgRejectedThenAccepted: after a statement was rejected by the firewall, the next accepted statement is
// processed according to itself: its rows are decoded with its own column settings (a column declared as text comes
// back as text for the owner), not with whatever the rejected statement left behind.
func VerifC05_PgRejectedThenAccepted() {
	store := verifPgKeys()
	crypto.InitRegistry(nil)
	env := config.CryptoEnvelopeTypeAcraBlock
	schema, err := config.VerifNewStore(false, "t", []string{"id", "secret", "plain"},
		&config.BasicColumnEncryptionSetting{Name: "secret", UsedClientID: "A", CryptoEnvelope: &env, DataType: "str"})
	if err != nil {
		panic("schema")
	}
	censor := acracensor.NewAcraCensor()
	deny := handlers.NewDenyHandler(sqlparser.New(sqlparser.ModeStrict))
	deny.AddTables([]string{"forbidden"})
	censor.AddHandler(deny)
	parser := sqlparser.New(sqlparser.ModeStrict)
	setting := base.NewProxySetting(parser, schema, store, nil, censor, nil)
	factory, _ := NewProxyFactory(setting, store, nil)
	ctx := base.SetAccessContextToContext(context.Background(), base.NewAccessContext(base.WithClientID([]byte("A"))))
	sess := &verifSession{data: map[string]interface{}{}}
	ctx = base.SetClientSessionToContext(ctx, sess)
	sess.ctx = ctx
	p, err := factory.New([]byte("A"), sess)
	if err != nil {
		panic("proxy")
	}
	v := &verifPg{proxy: p.(*PgProxy), ctx: ctx, toDB: &bytes.Buffer{}, toCl: &bytes.Buffer{}, cin: &bytes.Buffer{}, din: &bytes.Buffer{},
		logger: logrus.NewEntry(logrus.StandardLogger())}
	v.client, _ = NewClientSidePacketHandler(v.cin, bufio.NewWriter(v.toDB), v.logger)
	v.client.started = true
	v.db, _ = NewDbSidePacketHandler(v.din, bufio.NewWriter(v.toCl), v.logger)

	lit := verifPgMarker("literal", 3)
	fwd, censored, err := v.fromClient(verifQuery(verifSplice("insert into t (id, secret, plain) values (1, '%s', 'keep')", lit)))
	if err != nil || censored {
		verif.Assert(false, "write-forwarded")
		return
	}
	stored, ok := verifStoredHex(fwd)
	if !ok {
		verif.Assert(false, "protected-value-is-a-hex-bytea-literal")
		return
	}
	for _, p := range [][]byte{verifCommandComplete("INSERT 0 1"), verifReady()} {
		v.fromDB(p)
	}
	rejected := verif.Choose("rejected-first", 0, 1) == 1
	if rejected {
		_, censored, err := v.fromClient(verifQuery([]byte("select a, b, c from forbidden")))
		verif.Assert(err == nil && censored, "denied-statement-is-censored")
		// the proxy answers the client itself (error + ReadyForQuery); the database never saw the statement
	}
	out, ok := verifReadRow(v, verifPgHex(stored))
	verif.Reach("row-processed")
	verif.Assert(ok, "row-no-error")
	if ok {
		verif.Assert(verif.Eq(out, verifDataRow([]byte("1"), lit, []byte("keep"))), "accepted-statement-processed-by-its-own-settings")
	}
}

// verifDescribedOIDs reads the type OIDs out of a RowDescription message.
func verifDescribedOIDs(msg []byte) ([]uint32, bool) {
	if len(msg) < 7 || msg[0] != 'T' {
		return nil, false
	}
	n := int(msg[5])<<8 | int(msg[6])
	pos := 7
	var oids []uint32
	for i := 0; i < n; i++ {
		for pos < len(msg) && msg[pos] != 0 {
			pos++
		}
		pos++
		if pos+18 > len(msg) {
			return nil, false
		}
		oids = append(oids, uint32(msg[pos+6])<<24|uint32(msg[pos+7])<<16|uint32(msg[pos+8])<<8|uint32(msg[pos+9]))
		pos += 18
	}
	return oids, pos == len(msg)
}

// VerifC19_PgRowDescriptionTypes: two protected columns with declared types in one result. Whatever the pair of types
// and whichever of them the database already reports with the declared type, the description the client receives
// names the declared type for both (PostgreSQL catalog: int4 23, int8 20, text 25, bytea 17) and leaves the
// uncovered column alone.
func VerifC19_PgRowDescriptionTypes() {
	store := verifPgKeys()
	env := config.CryptoEnvelopeTypeAcraBlock
	types := []string{"int32", "int64", "str", "bytes"}
	oids := []uint32{23, 20, 25, 17}
	a := verif.Choose("first-type", 0, 3)
	b := verif.Choose("second-type", 0, 3)
	s1 := &config.BasicColumnEncryptionSetting{Name: "secret", UsedClientID: "A", CryptoEnvelope: &env, DataType: types[a]}
	s2 := &config.BasicColumnEncryptionSetting{Name: "plain", UsedClientID: "A", CryptoEnvelope: &env, DataType: types[b]}
	w := verifNewPgWith(store, "A", s1, s2)
	if _, _, err := w.fromClient(verifQuery([]byte("select id, secret, plain from t"))); err != nil {
		return
	}
	// the database reports both protected columns as bytea and the id as int4
	body := []byte{0, 3}
	for i, n := range []string{"id", "secret", "plain"} {
		body = append(body, n...)
		body = append(body, 0)
		oid := byte(17)
		if i == 0 {
			oid = 23
		}
		body = append(body, 0, 0, 0x40, 0, 0, byte(i+1), 0, 0, 0, oid, 0xff, 0xff, 0xff, 0xff, 0xff, 0xff, 0, 0)
	}
	out, err := w.fromDB(verifFrame('T', body))
	verif.Reach("description-processed")
	verif.Assert(err == nil, "description-no-error")
	if err != nil {
		return
	}
	got, ok := verifDescribedOIDs(out)
	verif.Assert(ok && len(got) == 3, "description-well-formed")
	if !ok || len(got) != 3 {
		return
	}
	verif.Assert(got[0] == 23, "uncovered-column-description-unchanged")
	verif.Assert(got[1] == oids[a], "first-typed-column-described-as-declared")
	verif.Assert(got[2] == oids[b], "second-typed-column-described-as-declared")
}

// VerifC14_PgExtendedSequence: Parse / Bind / Execute / Sync of one client through the real proxy with an encrypted
// and searchable column configured. The statement text ranges over empty and comment-only texts, reads and writes with
// placeholders; the Bind carries 0..2 parameters of 0..1 arbitrary ASCII bytes and arbitrary format codes — fewer or more
// than the statement has placeholders. Nothing panics (the engine reports a Go panic as a finding).
func VerifC14_PgExtendedSequence() {
	store := verifPgKeys()
	env := config.CryptoEnvelopeTypeAcraBlock
	setting := &config.BasicColumnEncryptionSetting{Name: "secret", UsedClientID: "A", CryptoEnvelope: &env, Searchable: true}
	w := verifNewPgWith(store, "A", setting)
	texts := []string{
		"", " ", ";", "-- nothing", "select 1",
		"insert into t (id, secret, plain) values ($1, $2, $3)",
		"insert into t values ($1, $2, $3)",
		"update t set secret = $1 where id = $2",
		"select id, secret, plain from t where secret = $1",
		"delete from t where secret = $2",
	}
	text := texts[verif.Choose("statement", 0, len(texts)-1)]
	if _, _, err := w.fromClient(verifParse("s", text)); err != nil {
		return
	}
	n := verif.Choose("params", 0, 2+verif.Tier())
	var params [][]byte
	for i := 0; i < n; i++ {
		p := verif.Bytes("p"+string(rune('0'+i)), verif.Choose("l"+string(rune('0'+i)), 0, 1+verif.Tier()))
		for j := range p {
			verif.Assume(p[j] < 0x80) // text parameters outside ASCII need the UTF-8 decoder over symbolic bytes
		}
		params = append(params, p)
	}
	var pf []uint16
	switch verif.Choose("param-formats", 0, 2) {
	case 1:
		pf = []uint16{uint16(verif.U8("pf0"))}
	case 2:
		for i := 0; i < n; i++ {
			pf = append(pf, uint16(verif.U8("pf"+string(rune('0'+i)))&1))
		}
	}
	_, _, err := w.fromClient(verifBind("s", pf, params, nil))
	verif.Reach("bind-processed")
	if err != nil {
		return
	}
	w.fromClient(verifExecute())
	w.fromClient(verifSync())
	verif.Reach("sequence-processed")
}

//go:build verif

package logging

import (
	"bytes"
	"strings"

	"github.com/sirupsen/logrus"

	"github.com/cossacklabs/acra/zz_verif/verif"
)

// verifWrite produces the protected log lines for the given formatter outputs (without the trailing newline).
func verifWrite(key []byte, cef bool, lines [][]byte) []string {
	var out []string
	var plain *PlaintextFormatterHook
	var cefHook *CefFormatterHook
	if cef {
		cefHook, _ = NewCefFormatterHook(key)
	} else {
		plain, _ = NewPlaintextFormatterHook(key)
	}
	for _, l := range lines {
		buf := &bytes.Buffer{}
		buf.Write(l)
		if cef {
			buf.WriteString(" \n") // the CEF formatter ends a line with a space and a newline
			if cefHook.PostFormat(nil, buf) != nil {
				return nil
			}
		} else {
			buf.WriteString("\n")
			if plain.PostFormat(nil, buf) != nil {
				return nil
			}
		}
		b := buf.Bytes()
		out = append(out, string(b[:len(b)-1]))
	}
	return out
}

func verifVerify(key []byte, cef bool, lines []string) error {
	var parser LogParser = &PlaintextLogParser{}
	if cef {
		parser = &CefLogParser{}
	}
	v, _ := NewIntegrityCheckVerifier(key, parser)
	ch := make(chan *LogEntryInfo, len(lines)+1)
	for i, l := range lines {
		ch <- &LogEntryInfo{RawLogEntry: l, LineNumber: i}
	}
	close(ch)
	_, err := v.VerifyIntegrityCheck(&LogEntrySource{Entries: ch})
	return err
}

func verifLine(name string, n int) []byte {
	l := verif.Bytes(name, n)
	for i := range l {
		verif.Assume(verif.And(l[i] != '\n', l[i] != '\r')) // the formatters escape line breaks
	}
	return l
}

// VerifC20_HonestChainVerifies: whatever the formatted entries contain, a log written with integrity protection
// verifies with the same key.
func VerifC20_HonestChainVerifies() {
	key := verif.Bytes("key", 4)
	cef := verif.Choose("cef", 0, 1) == 1
	k := verif.Choose("entries", 1, 2+verif.Tier())
	var lines [][]byte
	for i := 0; i < k; i++ {
		lines = append(lines, verifLine("line"+string(rune('0'+i)), 3))
	}
	written := verifWrite(key, cef, lines)
	verif.Assert(written != nil, "write-no-error")
	if written == nil {
		return
	}
	err := verifVerify(key, cef, written)
	verif.Reach("verified")
	verif.Assert(err == nil, "honest-chain-verifies")
}

// VerifC20_LookalikeIntegrityField: the same with an entry long enough to contain text that looks like the
// integrity field (" integrity=").
func VerifC20_LookalikeIntegrityField() {
	key := verif.Bytes("key", 4)
	first := verifLine("line0", 12)
	second := verifLine("line1", 2)
	written := verifWrite(key, false, [][]byte{first, second})
	if written == nil {
		return
	}
	err := verifVerify(key, false, written)
	verif.Reach("verified")
	verif.Assert(err == nil, "lookalike-field-chain-verifies")
}

// VerifC20_CefFormatterLookalike: entries rendered by the real CEF formatter from a message that contains text looking
// like the integrity field and other CEF syntax characters: the honest log verifies, and an edit of that entry is
// reported.
func VerifC20_CefFormatterLookalike() {
	key := verif.Bytes("key", 4)
	tail := verif.Bytes("tail", 2)
	for i := range tail {
		verif.Assume(verif.And(tail[i] > ' ', tail[i] < 0x7f))
	}
	msgs := []string{"login ok", "token integrity=" + string(tail), "next"}
	hook, _ := NewCefFormatterHook(key)
	f := &CEFTextFormatter{}
	var written []string
	for _, m := range msgs {
		e := &logrus.Entry{Message: m, Level: logrus.InfoLevel, Data: logrus.Fields{FieldKeyVendor: "v", FieldKeyProduct: "p", FieldKeyVersion: "1", FieldKeyEventCode: 100}}
		line, err := f.Format(e)
		if err != nil {
			return
		}
		buf := &bytes.Buffer{}
		buf.Write(line)
		if hook.PostFormat(e, buf) != nil {
			return
		}
		b := buf.Bytes()
		written = append(written, string(b[:len(b)-1]))
	}
	verif.Reach("written")
	verif.Assert(verifVerify(key, true, written) == nil, "cef-chain-with-lookalike-message-verifies")
	// one character of the second entry's message edited
	edited := append([]string{}, written...)
	i := strings.Index(edited[1], "token")
	if i < 0 {
		verif.Assert(false, "message-present-in-line")
		return
	}
	edited[1] = edited[1][:i] + "Token" + edited[1][i+5:]
	verif.Assert(verifVerify(key, true, edited) != nil, "edit-of-lookalike-entry-detected")
}

// VerifC20_TamperDetected: editing the authenticated text of an entry, swapping two entries, duplicating one,
// dropping one that is followed by another, or verifying with another key makes verification fail.
func VerifC20_TamperDetected() {
	key := verif.Bytes("key", 4)
	cef := verif.Choose("cef", 0, 1) == 1
	l0 := verifLine("line0", 3)
	l1 := verifLine("line1", 3)
	l2 := verifLine("line2", 3)
	written := verifWrite(key, cef, [][]byte{l0, l1, l2})
	if written == nil {
		return
	}
	mode := verif.Choose("mode", 0, 6)
	var tampered []string
	otherKey := key
	switch mode {
	case 0: // one entry's text replaced by a different text of the same length
		which := verif.Choose("which", 0, 2)
		nl := verifLine("newline", 3)
		orig := [][]byte{l0, l1, l2}[which]
		verif.Assume(!verif.Eq(nl, orig))
		tampered = append([]string{}, written...)
		tampered[which] = string(nl) + written[which][3:]
	case 1: // swap the second and third entries
		verif.Assume(!verif.Eq(l1, l2))
		tampered = []string{written[0], written[2], written[1]}
	case 2: // duplicate the second entry
		tampered = []string{written[0], written[1], written[1], written[2]}
	case 3: // remove the second entry (it is followed by the third)
		tampered = []string{written[0], written[2]}
	case 5: // text appended to an entry (after its integrity field / chain marker)
		which := verif.Choose("which", 0, 2)
		// visible characters: the CEF parser deliberately trims white space around the integrity field
		sfx := verifLine("suffix", 2)
		for i := range sfx {
			verif.Assume(verif.And(sfx[i] > 0x20, sfx[i] < 0x7f))
		}
		tampered = append([]string{}, written...)
		tampered[which] = written[which] + string(sfx)
	case 6: // text inserted in front of the integrity field of an entry
		which := verif.Choose("which", 0, 2)
		ins := verifLine("insert", 2)
		tampered = append([]string{}, written...)
		tampered[which] = written[which][:3] + string(ins) + written[which][3:]
	case 4: // another key
		otherKey = verif.Bytes("otherkey", 4)
		verif.Assume(!verif.Eq(otherKey, key))
		tampered = written
	}
	err := verifVerify(otherKey, cef, tampered)
	verif.Reach("tampered-verified")
	verif.Assert(err != nil, "tampering-detected")
}

// VerifC14_LogLineParsers: arbitrary lines never panic the audit-log line parsers.
func VerifC14_LogLineParsers() {
	hi := 14
	if verif.Tier() == 1 {
		hi = 24
	}
	lb := verifLine("line", verif.Choose("n", 0, hi))
	for i := range lb {
		verif.Assume(lb[i] < 0x80) // ASCII lines (strings.TrimSpace decodes UTF-8 runes of high bytes)
	}
	line := string(lb)
	(&PlaintextLogParser{}).ParseEntry(line)
	(&CefLogParser{}).ParseEntry(line)
	verif.Reach("parsed")
}

// VerifC20_SeveralChains: a log that holds a finalized chain followed by a second chain (key reset in between, as a
// service restart or ResetChain produces). The honest log verifies; duplicating the first entry of either chain,
// removing the end-of-chain entry of the first chain, or moving the second chain in front of the first is reported.
func VerifC20_SeveralChains() {
	key := verif.Bytes("key", 4)
	cef := verif.Choose("cef", 0, 1) == 1
	end := []byte(`msg="` + EndOfAuditLogChainMessage + `" ` + EndOfAuditLogChainSuffix)
	var plain *PlaintextFormatterHook
	var cefHook *CefFormatterHook
	if cef {
		cefHook, _ = NewCefFormatterHook(key)
	} else {
		plain, _ = NewPlaintextFormatterHook(key)
	}
	emit := func(l []byte) string {
		buf := &bytes.Buffer{}
		buf.Write(l)
		if cef {
			buf.WriteString(" \n")
			if cefHook.PostFormat(nil, buf) != nil {
				return ""
			}
		} else {
			buf.WriteString("\n")
			if plain.PostFormat(nil, buf) != nil {
				return ""
			}
		}
		b := buf.Bytes()
		return string(b[:len(b)-1])
	}
	a0 := emit(verifLine("a0", 2))
	aEnd := emit(end)
	if cef {
		cefHook.SetCryptoKey(key)
	} else {
		plain.SetCryptoKey(key)
	}
	b0 := emit(verifLine("b0", 2))
	b1 := emit(verifLine("b1", 2))
	bEnd := emit(end)
	if a0 == "" || aEnd == "" || b0 == "" || b1 == "" || bEnd == "" {
		return
	}
	verif.Reach("written")
	var log []string
	mode := verif.Choose("mode", 0, 4)
	switch mode {
	case 0:
		log = []string{a0, aEnd, b0, b1, bEnd}
	case 1: // first entry of the later chain twice
		log = []string{a0, aEnd, b0, b0, b1, bEnd}
	case 2: // first entry of the first chain twice
		log = []string{a0, a0, aEnd, b0, b1, bEnd}
	case 3: // end of the first chain removed
		log = []string{a0, b0, b1, bEnd}
	case 4: // chains in the other order
		log = []string{b0, b1, bEnd, a0, aEnd}
	}
	err := verifVerify(key, cef, log)
	if mode == 0 {
		verif.Assert(err == nil, "honest-log-with-two-chains-verifies")
	} else if mode == 4 {
		// each chain is complete and starts afresh: the order of whole chains is not authenticated by design
		verif.Reach("reordered-chains-checked")
	} else {
		verif.Assert(err != nil, "tampering-detected")
	}
}

// VerifC20_CefExtensionValues: honest CEF entries whose extension fields hold empty, blank or arbitrary short values
// (the formatter renders an empty value as a space, and the last extension ends the authenticated text) verify.
func VerifC20_CefExtensionValues() {
	key := verif.Bytes("key", 4)
	val := verif.Bytes("value", verif.Choose("n", 0, 2))
	for i := range val {
		verif.Assume(verif.And(val[i] >= ' ', val[i] < 0x7f))
	}
	field := "zone_id" // sorts after every built-in extension: its value ends the line
	if verif.Choose("field", 0, 1) == 1 {
		field = "client"
	}
	hook, _ := NewCefFormatterHook(key)
	f := &CEFTextFormatter{}
	var written []string
	for i := 0; i < 3; i++ {
		data := logrus.Fields{FieldKeyVendor: "v", FieldKeyProduct: "p", FieldKeyVersion: "1", FieldKeyEventCode: 100}
		if i == 1 {
			data[field] = string(val)
		}
		e := &logrus.Entry{Message: "m", Level: logrus.InfoLevel, Data: data}
		line, err := f.Format(e)
		if err != nil {
			return
		}
		buf := &bytes.Buffer{}
		buf.Write(line)
		if hook.PostFormat(e, buf) != nil {
			return
		}
		b := buf.Bytes()
		written = append(written, string(b[:len(b)-1]))
	}
	verif.Reach("written")
	verif.Assert(verifVerify(key, true, written) == nil, "cef-chain-with-short-extension-values-verifies")
}

//go:build verif

package acrablock

import (
	"context"

	"github.com/cossacklabs/acra/zz_verif/verif"
)

func verifKey(name string) []byte {
	k := verif.Bytes(name, 32)
	return k
}

func verifDup(b []byte) []byte { return append([]byte{}, b...) }

// VerifC01_AcraBlockRoundTrip: Decrypt(Extract(Create(d))) == d for every plaintext, key and context.
func VerifC01_AcraBlockRoundTrip() {
	hi := 4
	if verif.Tier() == 1 {
		hi = 16
	}
	n := verif.Choose("n", 1, hi)
	d := verif.Bytes("d", n)
	key := verifKey("key")
	ctxLen := verif.Choose("ctxlen", 0, 2)
	ctx := verif.Bytes("ctx", ctxLen)
	block, err := CreateAcraBlock(verifDup(d), verifDup(key), verifDup(ctx))
	verif.Assert(err == nil, "create-no-error")
	if err != nil {
		return
	}
	verif.Assert(len(block) == AcraBlockMinSize+32+44+n+44, "block-length")
	consumed, ab, err := ExtractAcraBlockFromData(block)
	verif.Assert(err == nil, "extract-no-error")
	if err != nil {
		return
	}
	verif.Assert(consumed == len(block), "extract-consumes-all")
	out, err := ab.Decrypt([][]byte{verifDup(key)}, verifDup(ctx))
	verif.Reach("decrypted")
	verif.Assert(err == nil, "decrypt-no-error")
	if err != nil {
		return
	}
	verif.Assert(verif.Eq(out, d), "roundtrip-equal")
}

// VerifC01_AcraBlockAfterRotation: a block made under a key that has since been rotated still decrypts when the key
// ring offers the newer keys first — whatever the newer keys are, including keys whose 2-byte key id equals the
// old key's (the id stored in the block is a hint, not an address).
func VerifC01_AcraBlockAfterRotation() {
	d := verif.Bytes("d", verif.Choose("n", 1, 2))
	old := verifKey("old")
	oldID, _ := Sha256KeyIDGenerator{}.GenerateKeyID(old, nil)
	collide := verif.Choose("key-ids-collide", 0, 1) == 1
	newer := [][]byte{}
	for i := 0; i < 1+verif.Tier(); i++ {
		k := verifKey("newer" + string(rune('0'+i)))
		verif.Assume(!verif.Eq(k, old))
		if verif.Symbolic() {
			id, _ := Sha256KeyIDGenerator{}.GenerateKeyID(k, nil)
			verif.Assume(verif.Eq(id, oldID) == collide)
		} else if collide {
			// native replay: the ideal hash of the symbolic run says nothing about real SHA-256, so look for a key
			// near the model's whose real key id collides (about 2^16 tries)
			for n := uint32(0); ; n++ {
				k[28], k[29], k[30], k[31] = byte(n>>24), byte(n>>16), byte(n>>8), byte(n)
				id, _ := Sha256KeyIDGenerator{}.GenerateKeyID(k, nil)
				if string(id) == string(oldID) && string(k) != string(old) {
					break
				}
			}
		}
		newer = append(newer, k)
	}
	block, err := CreateAcraBlock(verifDup(d), verifDup(old), nil)
	if err != nil {
		return
	}
	_, ab, err := ExtractAcraBlockFromData(block)
	if err != nil {
		verif.Assert(false, "extract-no-error")
		return
	}
	ring := append(append([][]byte{}, newer...), verifDup(old)) // newest first
	out, err := ab.Decrypt(ring, nil)
	verif.Reach("decrypted")
	verif.Assert(err == nil, "decrypt-after-rotation-no-error")
	if err == nil {
		verif.Assert(verif.Eq(out, d), "roundtrip-after-rotation-equal")
	}
}

// VerifC01_AcraBlockEmpty: an empty plaintext is rejected with an error (Themis refuses empty messages), never a panic.
func VerifC01_AcraBlockEmpty() {
	key := verifKey("key")
	_, err := CreateAcraBlock(nil, key, nil)
	verif.Reach("returned")
	verif.Assert(err != nil, "empty-rejected")
}

// VerifC02_AcraBlockOtherKey: a block made with key A never decrypts with a different key B (same or other context).
func VerifC02_AcraBlockOtherKey() {
	n := verif.Choose("n", 1, 3)
	d := verif.Bytes("d", n)
	keyA := verifKey("keyA")
	keyB := verifKey("keyB")
	verif.Assume(!verif.Eq(keyA, keyB))
	block, err := CreateAcraBlock(verifDup(d), verifDup(keyA), nil)
	if err != nil {
		return
	}
	_, ab, err := ExtractAcraBlockFromData(block)
	if err != nil {
		return
	}
	// rotated history on B's side: two keys, both different from A
	keyB2 := verifKey("keyB2")
	verif.Assume(!verif.Eq(keyA, keyB2))
	out, err := ab.Decrypt([][]byte{verifDup(keyB), verifDup(keyB2)}, nil)
	verif.Reach("decrypt-returned")
	verif.Assert(err != nil, "other-key-fails")
	verif.Assert(out == nil, "other-key-no-output")
}

// VerifC02_AcraBlockOtherContext: a block bound to context c1 does not decrypt under a different context c2.
func VerifC02_AcraBlockOtherContext() {
	d := verif.Bytes("d", 2)
	key := verifKey("key")
	c1 := verif.Bytes("c1", 2)
	c2 := verif.Bytes("c2", 2)
	verif.Assume(!verif.Eq(c1, c2))
	block, err := CreateAcraBlock(verifDup(d), verifDup(key), verifDup(c1))
	if err != nil {
		return
	}
	_, ab, err := ExtractAcraBlockFromData(block)
	if err != nil {
		return
	}
	_, err = ab.Decrypt([][]byte{verifDup(key)}, verifDup(c2))
	verif.Reach("decrypt-returned")
	verif.Assert(err != nil, "other-context-fails")
}

// VerifC03_AcraBlockTamperHeader: header bytes replaced by arbitrary bytes (body intact):
// extraction+decryption yields an error or exactly the original plaintext; never a panic.
// quick: region 0 = tag + 8-byte rest length, region 1 = type/key-id/type/key-length fields; thorough: all 18 bytes at once.
func VerifC03_AcraBlockTamperHeader() {
	d := verif.Bytes("d", 2)
	key := verifKey("key")
	block, err := CreateAcraBlock(verifDup(d), verifDup(key), nil)
	if err != nil {
		return
	}
	mod := verifDup(block)
	region := verif.Choose("region", 0, 1+verif.Tier())
	switch region {
	case 0:
		copy(mod[:KeyEncryptionKeyTypePosition], verif.Bytes("hdr0", KeyEncryptionKeyTypePosition))
	case 1:
		copy(mod[KeyEncryptionKeyTypePosition:AcraBlockMinSize], verif.Bytes("hdr1", AcraBlockMinSize-KeyEncryptionKeyTypePosition))
	default:
		copy(mod[:AcraBlockMinSize], verif.Bytes("hdr", AcraBlockMinSize))
	}
	verif.Assume(!verif.Eq(mod, block))
	verifRevealOrError(mod, key, d, "hdr")
}

// VerifC03_AcraBlockTruncExtend: truncation to any length and extension by up to 3 arbitrary bytes.
func VerifC03_AcraBlockTruncExtend() {
	d := verif.Bytes("d", 1)
	key := verifKey("key")
	block, err := CreateAcraBlock(verifDup(d), verifDup(key), nil)
	if err != nil {
		return
	}
	newLen := verif.Choose("newlen", 0, len(block)+3)
	mod := make([]byte, newLen)
	copy(mod, block)
	if newLen > len(block) {
		copy(mod[len(block):], verif.Bytes("ext", newLen-len(block)))
	}
	verif.Assume(newLen != len(block))
	verifRevealOrError(mod, key, d, "trunc")
}

// VerifC03_AcraBlockTamperBody: a window of the body (encrypted key / payload) replaced by arbitrary bytes.
func VerifC03_AcraBlockTamperBody() {
	d := verif.Bytes("d", 1)
	key := verifKey("key")
	block, err := CreateAcraBlock(verifDup(d), verifDup(key), nil)
	if err != nil {
		return
	}
	w := 4
	off := verif.Choose("off", AcraBlockMinSize, len(block)-w)
	win := verif.Bytes("win", w)
	mod := verifDup(block)
	copy(mod[off:off+w], win)
	verif.Assume(!verif.Eq(mod, block))
	verifRevealOrError(mod, key, d, "body")
}

// VerifC03_AcraBlockSplice: the head of one valid block joined with the tail of another.
func VerifC03_AcraBlockSplice() {
	d1 := verif.Bytes("d1", 1)
	d2 := verif.Bytes("d2", 1)
	key := verifKey("key")
	b1, err := CreateAcraBlock(verifDup(d1), verifDup(key), nil)
	if err != nil {
		return
	}
	b2, err := CreateAcraBlock(verifDup(d2), verifDup(key), nil)
	if err != nil {
		return
	}
	i := verif.Choose("cut", 1, len(b1)-1)
	mod := append(verifDup(b1[:i]), b2[i:]...)
	verif.Assume(!verif.Eq(mod, b1))
	verif.Assume(!verif.Eq(mod, b2))
	_, ab, err := ExtractAcraBlockFromData(mod)
	if err != nil {
		verif.Reach("splice-rejected")
		return
	}
	out, err := ab.Decrypt([][]byte{verifDup(key)}, nil)
	verif.Reach("splice-decrypt-returned")
	if err == nil {
		verif.Assert(verif.Or(verif.Eq(out, d1), verif.Eq(out, d2)), "splice-original-or-error")
	}
}

func verifRevealOrError(mod, key, d []byte, tag string) {
	_, ab, err := ExtractAcraBlockFromData(mod)
	if err != nil {
		verif.Reach(tag + "-rejected")
		return
	}
	out, err := ab.Decrypt([][]byte{verifDup(key)}, nil)
	verif.Reach(tag + "-decrypt-returned")
	if err == nil {
		verif.Assert(verif.Eq(out, d), tag+"-original-or-error")
	}
}

// VerifC14_AcraBlockArbitrary: arbitrary bytes into ExtractAcraBlockFromData + Decrypt never panic.
func VerifC14_AcraBlockArbitrary() {
	lo, hi := 16, 22
	if verif.Tier() == 1 {
		lo, hi = 0, 40
	}
	n := verif.Choose("n", lo, hi)
	data := verif.Bytes("data", n)
	key := verifKey("key")
	_, ab, err := ExtractAcraBlockFromData(data)
	verif.Reach("extract-returned")
	if err != nil {
		return
	}
	ab.Decrypt([][]byte{key}, nil)
	verif.Reach("decrypt-returned")
}

type verifProc struct{ key []byte }

func (p verifProc) OnAcraBlock(ctx context.Context, b AcraBlock) ([]byte, error) {
	return b.Decrypt([][]byte{verifDup(p.key)}, nil)
}

// VerifC14_ProcessAcraBlocksArbitrary: the column scanner over arbitrary bytes terminates without panic
// and, when nothing decrypts, returns the input unchanged.
func VerifC14_ProcessAcraBlocksArbitrary() {
	lo, hi := 19, 19
	if verif.Tier() == 1 {
		lo, hi = 0, 30
	}
	n := verif.Choose("n", lo, hi)
	data := verif.Bytes("data", n)
	key := verifKey("key")
	out, err := ProcessAcraBlocks(context.Background(), verifDup(data), make([]byte, n), verifProc{key})
	verif.Reach("process-returned")
	if err == nil {
		verif.Assert(verif.Eq(out, data), "garbage-unchanged")
	}
}

//go:build verif

package network

import (
	"crypto/x509"
	"crypto/x509/pkix"
	"encoding/asn1"

	"github.com/cossacklabs/acra/zz_verif/verif"
)

// verifCert is what x509.ParseCertificate leaves in Subject for "UID=<uid>,CN=<cn>,O=Example": the named fields
// for the attributes Go knows, and every attribute (also the ones it has no field for) in Names.
func verifCert(uid, cn string) *x509.Certificate {
	oidUID := asn1.ObjectIdentifier{0, 9, 2342, 19200300, 100, 1, 1}
	oidCN := asn1.ObjectIdentifier{2, 5, 4, 3}
	oidO := asn1.ObjectIdentifier{2, 5, 4, 10}
	return &x509.Certificate{Subject: pkix.Name{
		CommonName:   cn,
		Organization: []string{"Example"},
		Names: []pkix.AttributeTypeAndValue{
			{Type: oidO, Value: "Example"},
			{Type: oidCN, Value: cn},
			{Type: oidUID, Value: uid},
		},
	}}
}

// VerifC02_TLSClientIDs: the client identity derived from a TLS certificate (default: distinguished name, hashed)
// distinguishes certificates whose subjects differ in any attribute — in the common name or in an attribute the
// X.509 library has no dedicated field for (UID) — and is the same for the same subject.
func VerifC02_TLSClientIDs() {
	ex, err := NewDefaultTLSClientIDExtractor()
	if err != nil {
		panic("extractor")
	}
	a := verif.U8("a")
	b := verif.U8("b")
	verif.Assume(verif.And(a >= 'a', a <= 'z', b >= 'a', b <= 'z', a != b))
	var c1, c2 *x509.Certificate
	if verif.Choose("differ-in", 0, 1) == 0 {
		c1, c2 = verifCert("u", string([]byte{a})), verifCert("u", string([]byte{b}))
	} else {
		c1, c2 = verifCert(string([]byte{a}), "app"), verifCert(string([]byte{b}), "app")
	}
	id1, err1 := ex.ExtractClientID(c1)
	id2, err2 := ex.ExtractClientID(c2)
	id1b, err3 := ex.ExtractClientID(c1)
	verif.Reach("extracted")
	verif.Assert(err1 == nil && err2 == nil && err3 == nil, "client-id-extracted")
	if err1 != nil || err2 != nil || err3 != nil {
		return
	}
	verif.Assert(!verif.Eq(id1, id2), "different-subjects-different-client-ids")
	verif.Assert(verif.Eq(id1, id1b), "same-subject-same-client-id")
}

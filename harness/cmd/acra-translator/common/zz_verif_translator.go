//go:build verif

package common

import (
	"context"

	"github.com/cossacklabs/acra/crypto"
	"github.com/cossacklabs/acra/poison"
	"github.com/cossacklabs/acra/zz_verif/verif"
	"github.com/cossacklabs/acra/zz_verif/vks"
	"github.com/cossacklabs/themis/gothemis/keys"
)

func verifDup(b []byte) []byte { return append([]byte{}, b...) }

type verifCounter struct{ n int }

func (c *verifCounter) Call() error { c.n++; return nil }

// verifService: clients A and B with keys of every kind, client N without any; one poison key of each kind;
// intrusion callbacks configured.
func verifService() (*TranslatorService, *vks.Store, *verifCounter) {
	crypto.InitRegistry(nil)
	s := vks.New()
	s.AddSym("A", []byte("0123456789abcdef0123456789abcdeA"))
	s.AddSym("B", []byte("0123456789abcdef0123456789abcdeB"))
	s.HMAC["A"] = []byte("hmac-key-of-client-A-0123456789ab")
	s.HMAC["B"] = []byte("hmac-key-of-client-B-0123456789ab")
	for _, id := range []string{"A", "B"} {
		kp, _ := keys.New(keys.TypeEC)
		s.AddPair(id, kp)
	}
	s.PoisonSym = [][]byte{[]byte("0123456789abcdef0123456789abcdeP")}
	pp, _ := keys.New(keys.TypeEC)
	s.PoisonPairs = []*keys.Keypair{pp}
	counter := &verifCounter{}
	callbacks := poison.NewCallbackStorage()
	callbacks.AddCallback(counter)
	svc, err := NewTranslatorService(&TranslatorData{Keystorage: s, PoisonRecordCallbacks: callbacks})
	if err != nil {
		panic("service")
	}
	return svc, s, counter
}

// VerifC15_TranslatorPoison: a poison record of either kind handed to any translator decrypt operation, under a
// client with keys or without, runs the intrusion callbacks (and is never "decrypted").
func VerifC15_TranslatorPoison() {
	svc, s, counter := verifService()
	var rec []byte
	var err error
	if verif.Choose("kind", 0, 1) == 0 {
		rec, err = poison.CreateSymmetricPoisonRecord(s, 2)
	} else {
		rec, err = poison.CreatePoisonRecord(s, 2)
	}
	if err != nil {
		return
	}
	client := []byte("A")
	if verif.Choose("client", 0, 1) == 1 {
		client = []byte("N")
	}
	ctx := context.Background()
	switch verif.Choose("operation", 0, 3) {
	case 0:
		_, err = svc.Decrypt(ctx, verifDup(rec), client, nil)
	case 1:
		_, err = svc.DecryptSym(ctx, verifDup(rec), client, nil)
	case 2:
		_, err = svc.DecryptSearchable(ctx, verifDup(rec), nil, client, nil)
	case 3:
		_, err = svc.DecryptSymSearchable(ctx, verifDup(rec), nil, client, nil)
	}
	verif.Reach("operation-returned")
	verif.Assert(err != nil, "poison-record-is-not-revealed")
	verif.Assert(counter.n >= 1, "poison-callbacks-ran")
}

// VerifC15_TranslatorEmbeddedPoison: the same with arbitrary bytes in front of and behind the record.
func VerifC15_TranslatorEmbeddedPoison() {
	svc, s, counter := verifService()
	var rec []byte
	var err error
	if verif.Choose("kind", 0, 1) == 0 {
		rec, err = poison.CreateSymmetricPoisonRecord(s, 2)
	} else {
		rec, err = poison.CreatePoisonRecord(s, 2)
	}
	if err != nil {
		return
	}
	hi := 2 + verif.Tier()
	prefix := verif.Bytes("prefix", verif.Choose("p", 1, hi))
	suffix := verif.Bytes("suffix", verif.Choose("s", 0, 1))
	value := append(append(verifDup(prefix), rec...), suffix...)
	ctx := context.Background()
	if verif.Choose("operation", 0, 1) == 0 {
		_, err = svc.Decrypt(ctx, verifDup(value), []byte("A"), nil)
	} else {
		_, err = svc.DecryptSym(ctx, verifDup(value), []byte("A"), nil)
	}
	verif.Reach("operation-returned")
	verif.Assert(counter.n >= 1, "poison-callbacks-ran")
}

// VerifC01_TranslatorRoundTrip: what the translator's encrypt operations produce, its decrypt operations give back
// byte for byte to the same client, and the callbacks stay silent; another client and a client without keys get an
// error (C02), again without an alarm.
func VerifC01_TranslatorRoundTrip() {
	svc, _, counter := verifService()
	ctx := context.Background()
	d := verif.Bytes("d", verif.Choose("n", 1, 2+verif.Tier()))
	op := verif.Choose("operation", 0, 3)
	var c, hash []byte
	var err error
	switch op {
	case 0:
		c, err = svc.Encrypt(ctx, verifDup(d), []byte("A"), nil)
	case 1:
		c, err = svc.EncryptSym(ctx, verifDup(d), []byte("A"), nil)
	case 2:
		var r SearchableResponse
		r, err = svc.EncryptSearchable(ctx, verifDup(d), []byte("A"), nil)
		c, hash = r.EncryptedData, r.Hash
	case 3:
		var r SearchableResponse
		r, err = svc.EncryptSymSearchable(ctx, verifDup(d), []byte("A"), nil)
		c, hash = r.EncryptedData, r.Hash
	}
	verif.Assert(err == nil, "protect-no-error")
	if err != nil {
		return
	}
	reader := []byte("A")
	switch verif.Choose("reader", 0, 2) {
	case 1:
		reader = []byte("B")
	case 2:
		reader = []byte("N")
	}
	var out []byte
	switch op {
	case 0:
		out, err = svc.Decrypt(ctx, verifDup(c), reader, nil)
	case 1:
		out, err = svc.DecryptSym(ctx, verifDup(c), reader, nil)
	case 2:
		out, err = svc.DecryptSearchable(ctx, verifDup(c), verifDup(hash), reader, nil)
	case 3:
		out, err = svc.DecryptSymSearchable(ctx, verifDup(c), verifDup(hash), reader, nil)
	}
	verif.Reach("revealed")
	if string(reader) == "A" {
		verif.Assert(err == nil, "owner-reveal-no-error")
		if err == nil {
			verif.Assert(verif.Eq(out, d), "owner-roundtrip-equal")
		}
	} else {
		verif.Assert(err != nil, "other-client-gets-an-error")
	}
	verif.Assert(counter.n == 0, "no-alarm-for-ordinary-data")
}

//go:build verif

package pseudonymization

import (
	"github.com/cossacklabs/acra/pseudonymization/common"
	"github.com/cossacklabs/acra/pseudonymization/storage"
	"github.com/cossacklabs/acra/zz_verif/verif"
	"github.com/cossacklabs/acra/zz_verif/vks"
)

func verifInCharset(b byte) bool {
	return verif.Or(verif.And(b >= 'a', b <= 'z'), verif.And(b >= 'A', b <= 'Z'), verif.And(b >= '0', b <= '9'))
}

// VerifC10_RandomGenerators: for every length and every random choice the generators keep the length,
// stay inside their alphabet and never panic.
func VerifC10_RandomGenerators() {
	hi := 12
	if verif.Tier() == 1 {
		hi = 40
	}
	n := verif.Choose("n", 0, hi)
	buf := make([]byte, n)
	err := randomString(buf)
	verif.Assert(err == nil, "string-no-error")
	for i := range buf {
		verif.Assert(verifInCharset(buf[i]), "string-charset")
	}
	rb := make([]byte, n)
	verif.Assert(randomRead(rb) == nil, "read-no-error")
	a := anonymizer{}
	s, err := a.AnonymizeStr(string(make([]byte, n)), common.TokenContext{})
	verif.Assert(err == nil, "anonymize-str-no-error")
	verif.Assert(len(s) == n, "anonymize-str-same-length")
	b, err := a.AnonymizeBytes(make([]byte, n), common.TokenContext{})
	verif.Assert(err == nil, "anonymize-bytes-no-error")
	verif.Assert(len(b) == n, "anonymize-bytes-same-length")
	verif.Reach("generated")
}

// VerifC10_RandomEmail: an e-mail-shaped input (some '@' strictly inside) gets an e-mail-shaped token of the
// same length, for every length and random choice; no length makes the generator panic.
func VerifC10_RandomEmail() {
	hi := 12
	if verif.Tier() == 1 {
		hi = 40
	}
	n := verif.Choose("n", 0, hi)
	in := verif.Bytes("in", n)
	shaped := false
	for i := 1; i+1 < n; i++ {
		shaped = verif.Or(shaped, in[i] == '@')
	}
	a := anonymizer{}
	tok, err := a.AnonymizeEmail(common.Email(in), common.TokenContext{})
	verif.Reach("email-returned")
	if err != nil {
		return
	}
	verif.Assert(len(tok) == n, "email-same-length")
	out := []byte(tok)
	at := false
	for i := 1; i+1 < n; i++ {
		at = verif.Or(at, out[i] == '@')
	}
	verif.Assert(verif.Implies(shaped, at), "email-shape-preserved")
}

// ---- token store: consistency, reversibility, isolation ----

func verifPseudo() (common.Pseudoanonymizer, *verifStorage) {
	st := newVerifStorage()
	p, err := NewPseudoanonymizer(st)
	if err != nil {
		panic("pseudoanonymizer")
	}
	// bound: the regenerate-on-collision loop runs 2 (thorough: 3) times instead of 10; its body is the same
	p.(*pseudoanonymizer).dataGenerationLoopLimit = 2 + verif.Tier()
	return p, st
}

// VerifC10_ConsistentTokens: consistent tokenization of byte strings on the memory token store: the same value maps
// to the same token every time (also after the tokens were disabled and enabled again by maintenance), the owner gets
// the value back, another client context gets the token itself, and two different values never share a token.
func VerifC10_ConsistentTokens() {
	p, st := verifPseudo()
	ctxA := common.TokenContext{ClientID: []byte("A")}
	ctxB := common.TokenContext{ClientID: []byte("B")}
	hi := 1 // one-byte values make token collisions (and the retry paths they trigger) likely
	if verif.Tier() == 1 {
		hi = 2
	}
	n := verif.Choose("n", 1, hi)
	v1 := verif.Bytes("v1", n)
	v2 := verif.Bytes("v2", n)
	verif.Assume(!verif.Eq(v1, v2))
	t1, err := p.AnonymizeConsistently(append([]byte{}, v1...), ctxA, common.TokenType_Bytes)
	verif.Assert(err == nil, "tokenize-v1")
	if err != nil {
		return
	}
	tok1 := t1.([]byte)
	verif.Assert(len(tok1) == n, "token-same-length")
	maintenance := verif.Choose("maintenance", 0, 1) == 1
	if maintenance {
		st.setDisabled(true)
	}
	t1b, err := p.AnonymizeConsistently(append([]byte{}, v1...), ctxA, common.TokenType_Bytes)
	if maintenance {
		st.setDisabled(false)
		if err != nil {
			// a disabled token may refuse service, but it must not be replaced
			t1b, err = p.AnonymizeConsistently(append([]byte{}, v1...), ctxA, common.TokenType_Bytes)
		}
	}
	verif.Reach("tokenized-twice")
	verif.Assert(err == nil, "tokenize-v1-again")
	if err != nil {
		return
	}
	verif.Assert(verif.Eq(t1b.([]byte), tok1), "same-value-same-token")
	back, err := p.Deanonymize(append([]byte{}, tok1...), ctxA, common.TokenType_Bytes)
	verif.Assert(err == nil, "detokenize-owner")
	if err == nil {
		verif.Assert(verif.Eq(back.([]byte), v1), "owner-gets-original")
	}
	other, err := p.Deanonymize(append([]byte{}, tok1...), ctxB, common.TokenType_Bytes)
	if err == nil {
		verif.Assert(verif.Eq(other.([]byte), tok1), "other-context-gets-token-itself")
	}
	t2, err := p.AnonymizeConsistently(append([]byte{}, v2...), ctxA, common.TokenType_Bytes)
	if err != nil {
		return // the random source may exhaust its retries; an error is acceptable, a shared token is not
	}
	verif.Assert(!verif.Eq(t2.([]byte), tok1), "different-values-different-tokens")
	back1, err := p.Deanonymize(append([]byte{}, tok1...), ctxA, common.TokenType_Bytes)
	if err == nil {
		verif.Assert(verif.Eq(back1.([]byte), v1), "first-token-still-reveals-first-value")
	}
}

// VerifC10_ConsistentTokenTypes: the same guarantees for the other token types (string, e-mail, 32-bit integer):
// a value keeps its token, the owner gets the value back from the token, and two different values never share one.
func VerifC10_ConsistentTokenTypes() {
	p, _ := verifPseudo()
	ctxA := common.TokenContext{ClientID: []byte("A")}
	var v1, v2 interface{}
	var tt common.TokenType
	switch verif.Choose("type", 0, 2) {
	case 0:
		tt = common.TokenType_String
		a, b := verif.Bytes("s1", 2), verif.Bytes("s2", 2)
		for _, x := range append(append([]byte{}, a...), b...) {
			_ = x
		}
		for i := range a {
			verif.Assume(verif.And(a[i] >= 'a', a[i] <= 'd', b[i] >= 'a', b[i] <= 'd'))
		}
		verif.Assume(!verif.Eq(a, b))
		v1, v2 = string(a), string(b)
	case 1:
		tt = common.TokenType_Email
		a, b := verif.U8("e1"), verif.U8("e2")
		verif.Assume(verif.And(a >= 'a', a <= 'd', b >= 'a', b <= 'd', a != b))
		v1, v2 = common.Email(string([]byte{a, '@', 'x', '.', 'i', 'o'})), common.Email(string([]byte{b, '@', 'x', '.', 'i', 'o'}))
	case 2:
		tt = common.TokenType_Int32
		a, b := verif.I32("i1"), verif.I32("i2")
		verif.Assume(a != b)
		v1, v2 = a, b
	}
	t1, err := p.AnonymizeConsistently(v1, ctxA, tt)
	verif.Assert(err == nil, "tokenize-v1")
	if err != nil {
		return
	}
	t1b, err := p.AnonymizeConsistently(v1, ctxA, tt)
	verif.Reach("tokenized-twice")
	verif.Assert(err == nil, "tokenize-v1-again")
	if err != nil {
		return
	}
	verif.Assert(verif.DeepEqual(t1b, t1), "same-value-same-token")
	back, err := p.Deanonymize(t1, ctxA, tt)
	verif.Assert(err == nil, "detokenize-owner")
	if err == nil {
		verif.Assert(verif.DeepEqual(back, v1), "owner-gets-original")
	}
	t2, err := p.AnonymizeConsistently(v2, ctxA, tt)
	if err != nil {
		return
	}
	verif.Assert(!verif.DeepEqual(t2, t1), "different-values-different-tokens")
}

// VerifC10_EncryptedTokenStoreAfterRotation: tokens kept in the encrypting token store survive a rotation of the
// client's storage key: the owner still gets the original for an old token, the same value still maps to the same
// token, and another client still gets nothing but the token.
func VerifC10_EncryptedTokenStoreAfterRotation() {
	ks := vks.New()
	kOld := verif.Bytes("kOld", 32)
	kNew := verif.Bytes("kNew", 32)
	kB := verif.Bytes("kB", 32)
	verif.Assume(!verif.Eq(kOld, kNew) && !verif.Eq(kOld, kB) && !verif.Eq(kNew, kB))
	ks.AddSym("A", kOld)
	ks.AddSym("B", kB)
	mem, err := storage.NewMemoryTokenStorage()
	if err != nil {
		panic("storage")
	}
	enc, err := storage.NewSCellEncryptor(ks)
	if err != nil {
		panic("encryptor")
	}
	p, err := NewPseudoanonymizer(storage.WrapStorageWithEncryption(mem, enc))
	if err != nil {
		panic("pseudoanonymizer")
	}
	p.(*pseudoanonymizer).dataGenerationLoopLimit = 2
	ctxA := common.TokenContext{ClientID: []byte("A")}
	ctxB := common.TokenContext{ClientID: []byte("B")}
	v := verif.Bytes("v", 2)
	t1, err := p.AnonymizeConsistently(append([]byte{}, v...), ctxA, common.TokenType_Bytes)
	verif.Assert(err == nil, "tokenize")
	if err != nil {
		return
	}
	tok := t1.([]byte)
	if verif.Choose("rotate", 0, 1) == 1 {
		// rotation: the new key becomes current, the old one stays in the history
		ks.Sym["A"] = [][]byte{append([]byte{}, kNew...), append([]byte{}, kOld...)}
	}
	back, err := p.Deanonymize(append([]byte{}, tok...), ctxA, common.TokenType_Bytes)
	verif.Reach("detokenized")
	verif.Assert(err == nil, "detokenize-owner")
	if err == nil {
		verif.Assert(verif.Eq(back.([]byte), v), "owner-gets-original-after-rotation")
	}
	t2, err := p.AnonymizeConsistently(append([]byte{}, v...), ctxA, common.TokenType_Bytes)
	verif.Assert(err == nil, "tokenize-again")
	if err == nil {
		verif.Assert(verif.Eq(t2.([]byte), tok), "same-value-same-token-after-rotation")
	}
	other, err := p.Deanonymize(append([]byte{}, tok...), ctxB, common.TokenType_Bytes)
	if err == nil {
		verif.Assert(verif.Eq(other.([]byte), tok), "other-client-gets-token-itself")
	}
}

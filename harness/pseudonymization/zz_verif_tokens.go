//go:build verif

package pseudonymization

import (
	"github.com/cossacklabs/acra/pseudonymization/common"
	"github.com/cossacklabs/acra/zz_verif/verif"
)

func verifInCharset(b byte) bool {
	return verif.Or(verif.And(b >= 'a', b <= 'z'), verif.And(b >= 'A', b <= 'Z'), verif.And(b >= '0', b <= '9'))
}

// VerifC10_RandomGenerators: for every length and every random choice the generators keep the length,
// stay inside their alphabet and never panic.
func VerifC10_RandomGenerators() {
	hi := 12
	if verif.Tier() == 1 {
		hi = 40
	}
	n := verif.Choose("n", 0, hi)
	buf := make([]byte, n)
	err := randomString(buf)
	verif.Assert(err == nil, "string-no-error")
	for i := range buf {
		verif.Assert(verifInCharset(buf[i]), "string-charset")
	}
	rb := make([]byte, n)
	verif.Assert(randomRead(rb) == nil, "read-no-error")
	a := anonymizer{}
	s, err := a.AnonymizeStr(string(make([]byte, n)), common.TokenContext{})
	verif.Assert(err == nil, "anonymize-str-no-error")
	verif.Assert(len(s) == n, "anonymize-str-same-length")
	b, err := a.AnonymizeBytes(make([]byte, n), common.TokenContext{})
	verif.Assert(err == nil, "anonymize-bytes-no-error")
	verif.Assert(len(b) == n, "anonymize-bytes-same-length")
	verif.Reach("generated")
}

// VerifC10_RandomEmail: an e-mail-shaped input (some '@' strictly inside) gets an e-mail-shaped token of the
// same length, for every length and random choice; no length makes the generator panic.
func VerifC10_RandomEmail() {
	hi := 12
	if verif.Tier() == 1 {
		hi = 40
	}
	n := verif.Choose("n", 0, hi)
	in := verif.Bytes("in", n)
	shaped := false
	for i := 1; i+1 < n; i++ {
		shaped = verif.Or(shaped, in[i] == '@')
	}
	a := anonymizer{}
	tok, err := a.AnonymizeEmail(common.Email(in), common.TokenContext{})
	verif.Reach("email-returned")
	if err != nil {
		return
	}
	verif.Assert(len(tok) == n, "email-same-length")
	out := []byte(tok)
	at := false
	for i := 1; i+1 < n; i++ {
		at = verif.Or(at, out[i] == '@')
	}
	verif.Assert(verif.Implies(shaped, at), "email-shape-preserved")
}

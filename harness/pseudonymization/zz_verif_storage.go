//go:build verif

package pseudonymization

import (
	"github.com/cossacklabs/acra/pseudonymization/common"
	"github.com/cossacklabs/acra/pseudonymization/storage"
)

// verifStorage is the repository's memory token store plus the maintenance switch that acra-tokens disable/enable
// performs through VisitMetadata.
type verifStorage struct {
	*storage.MemoryTokenStorage
}

func newVerifStorage() *verifStorage {
	m, err := storage.NewMemoryTokenStorage()
	if err != nil {
		panic("storage")
	}
	return &verifStorage{m}
}

func (s *verifStorage) setDisabled(disabled bool) {
	s.VisitMetadata(func(dataLength int, metadata common.TokenMetadata) (common.TokenAction, error) {
		if disabled {
			return common.TokenDisable, nil
		}
		return common.TokenEnable, nil
	})
}

//go:build verif

package crypto

import (
	"context"

	"github.com/cossacklabs/acra/decryptor/base"
	"github.com/cossacklabs/acra/zz_verif/verif"
	"github.com/cossacklabs/acra/zz_verif/vks"
	"github.com/cossacklabs/themis/gothemis/keys"
)

func verifDup(b []byte) []byte { return append([]byte{}, b...) }

// verifStore: client A and client B each with a current and one rotated key of both kinds; all keys distinct.
func verifStore() *vks.Store { return verifStoreN(2) }

func verifStoreN(nkeys int) *vks.Store {
	s := vks.New()
	var seen [][]byte
	for _, id := range []string{"A", "B"} {
		for r := 0; r < nkeys; r++ {
			k := verif.Bytes("sym"+id+string(rune('0'+r)), 32)
			for _, o := range seen {
				verif.Assume(!verif.Eq(k, o))
			}
			seen = append(seen, k)
			s.AddSym(id, k)
			kp, _ := keys.New(keys.TypeEC)
			s.AddPair(id, kp)
		}
	}
	return s
}

func verifCtx(id string) context.Context {
	return base.SetAccessContextToContext(context.Background(), base.NewAccessContext(base.WithClientID([]byte(id))))
}

func verifHandler(kind int) ContainerHandler {
	name := "acrablock"
	if kind == 1 {
		name = "acrastruct"
	}
	h, err := GetHandlerByName(name)
	if err != nil {
		panic("no handler " + name)
	}
	return h
}

// chain as wired by decryptor/{postgresql,mysql}/proxy.go (no poison callbacks, no masking)
func verifChain(s *vks.Store) (*OldContainerDetectorWrapper, RegistryHandler) {
	rh := NewRegistryHandler(s)
	det := NewEnvelopeDetector()
	wrapper := NewOldContainerDetectorWrapper(det)
	det.AddCallback(NewDecryptHandler(s, rh))
	return wrapper, rh
}

// VerifC01_RegistryRoundTrip: protect through the registry handler, reveal through Process; protect(protect(d)) == protect(d).
func VerifC01_RegistryRoundTrip() {
	InitRegistry(nil)
	s := verifStore()
	rh := NewRegistryHandler(s)
	kind := verif.Choose("kind", 0, 1)
	h := verifHandler(kind)
	hi := 3
	if verif.Tier() == 1 {
		hi = 12
	}
	n := verif.Choose("n", 1, hi)
	d := verif.Bytes("d", n)
	c, err := rh.EncryptWithHandler(h, []byte("A"), verifDup(d))
	verif.Assert(err == nil, "protect-no-error")
	if err != nil {
		return
	}
	verif.Assert(rh.MatchDataSignature(c), "container-matches-signature")
	out, err := rh.Process(verifDup(c), &base.DataProcessorContext{Keystore: s, Context: verifCtx("A")})
	verif.Reach("revealed")
	verif.Assert(err == nil, "reveal-no-error")
	if err == nil {
		verif.Assert(verif.Eq(out, d), "roundtrip-equal")
	}
	c2, err := rh.EncryptWithHandler(h, []byte("A"), verifDup(c))
	verif.Assert(err == nil, "reprotect-no-error")
	if err == nil {
		verif.Assert(verif.Eq(c2, c), "no-double-wrapping")
	}
	// the other envelope's handler must not wrap it either
	c3, err := rh.EncryptWithHandler(verifHandler(1-kind), []byte("A"), verifDup(c))
	if err == nil {
		verif.Assert(verif.Eq(c3, c), "no-double-wrapping-other-envelope")
	}
}

// VerifC01_ColumnFraming: prefix ++ container ++ suffix through the detector chain == prefix ++ d ++ suffix,
// for all prefix/suffix/plaintext bytes (tag bytes included).
func VerifC01_ColumnFraming() {
	InitRegistry(nil)
	s := verifStore()
	wrapper, rh := verifChain(s)
	kind := verif.Choose("kind", 0, 1)
	h := verifHandler(kind)
	hi := 3
	if verif.Tier() == 1 {
		hi = 5
	}
	d := verif.Bytes("d", verif.Choose("n", 1, 2))
	c, err := rh.EncryptWithHandler(h, []byte("A"), verifDup(d))
	if err != nil {
		return
	}
	prefix := verif.Bytes("prefix", verif.Choose("p", 0, hi))
	suffix := verif.Bytes("suffix", verif.Choose("s", 0, hi))
	col := append(append(verifDup(prefix), c...), suffix...)
	want := append(append(verifDup(prefix), d...), suffix...)
	_, out, err := wrapper.OnColumn(verifCtx("A"), verifDup(col))
	verif.Reach("column-processed")
	verif.Assert(err == nil, "column-no-error")
	if err == nil {
		verif.Assert(verif.Eq(out, want), "column-framing")
	}
}

// VerifC01_OldContainerColumn: a bare AcraBlock/AcraStruct (no container header) inside a column is revealed for the owner too.
func VerifC01_OldContainerColumn() {
	InitRegistry(nil)
	s := verifStore()
	wrapper, rh := verifChain(s)
	kind := verif.Choose("kind", 0, 1)
	h := verifHandler(kind)
	d := verif.Bytes("d", 1)
	c, err := rh.EncryptWithHandler(h, []byte("A"), verifDup(d))
	if err != nil {
		return
	}
	inner := c[SerializedContainerMinSize:]
	prefix := verif.Bytes("prefix", verif.Choose("p", 0, 2))
	suffix := verif.Bytes("suffix", verif.Choose("s", 0, 2))
	col := append(append(verifDup(prefix), inner...), suffix...)
	want := append(append(verifDup(prefix), d...), suffix...)
	// the case "column also contains bytes that look like a container header" is a recorded finding,
	// explored by VerifC01_OldContainerAfterLookalike; here the column holds no container tag at all
	verif.Assume(!verif.Contains(col, TagBegin))
	_, out, err := wrapper.OnColumn(verifCtx("A"), verifDup(col))
	verif.Reach("column-processed")
	verif.Assert(err == nil, "old-column-no-error")
	if err == nil {
		verif.Assert(verif.Eq(out, want), "old-column-framing")
	}
}

// VerifC01_OldContainerAfterLookalike: a bare AcraBlock preceded by bytes that merely look like a container header
// ("%%%" + 8 bytes + a registered envelope id + 1 byte) must still be revealed for the owner.
func VerifC01_OldContainerAfterLookalike() {
	InitRegistry(nil)
	s := verifStore()
	wrapper, rh := verifChain(s)
	h := verifHandler(0)
	d := verif.Bytes("d", 1)
	c, err := rh.EncryptWithHandler(h, []byte("A"), verifDup(d))
	if err != nil {
		return
	}
	inner := c[SerializedContainerMinSize:]
	// "%%%" + eight zero bytes + an arbitrary id byte + one arbitrary byte
	noise := make([]byte, SerializedContainerMinSize+1)
	copy(noise, TagBegin)
	copy(noise[SerializedContainerMinSize-1:], verif.Bytes("noise", 2))
	col := append(verifDup(noise), inner...)
	want := append(verifDup(noise), d...)
	_, out, err := wrapper.OnColumn(verifCtx("A"), verifDup(col))
	verif.Reach("column-processed")
	if err == nil {
		verif.Assert(verif.Eq(out, want), "old-column-after-lookalike")
	}
}

// VerifC01_PlaintextWithEmbeddedEnvelope: a plaintext that itself contains a whole envelope some earlier write
// produced (bare or with the container header, either kind) next to at least one more byte is protected like any
// other plaintext and comes back byte for byte, through Process and through the column processor.
func VerifC01_PlaintextWithEmbeddedEnvelope() {
	InitRegistry(nil)
	s := verifStore()
	wrapper, rh := verifChain(s)
	kind := verif.Choose("kind", 0, 1)
	h := verifHandler(kind)
	embedded, err := rh.EncryptWithHandler(verifHandler(verif.Choose("embedded-kind", 0, 1)), []byte("A"), verif.Bytes("inner", 1))
	if err != nil {
		return
	}
	if verif.Choose("bare", 0, 1) == 1 {
		embedded = embedded[SerializedContainerMinSize:]
	}
	var d []byte
	switch verif.Choose("where", 0, 2) {
	case 0:
		d = append(verifDup(embedded), verif.Bytes("suffix", 1)...)
	case 1:
		d = append(verif.Bytes("prefix", 1), embedded...)
	case 2:
		d = append(append(verif.Bytes("prefix", 1), embedded...), verif.Bytes("suffix", 1)...)
	}
	c, err := rh.EncryptWithHandler(h, []byte("A"), verifDup(d))
	verif.Assert(err == nil, "protect-no-error")
	if err != nil {
		return
	}
	verif.Reach("protected")
	verif.Assert(!verif.Eq(c, d), "plaintext-with-embedded-envelope-is-protected")
	out, err := rh.Process(verifDup(c), &base.DataProcessorContext{Keystore: s, Context: verifCtx("A")})
	verif.Assert(err == nil, "reveal-no-error")
	if err == nil {
		verif.Assert(verif.Eq(out, d), "roundtrip-equal")
	}
	_, col, err := wrapper.OnColumn(verifCtx("A"), verifDup(c))
	verif.Assert(err == nil, "column-no-error")
	if err == nil {
		verif.Assert(verif.Eq(col, d), "column-roundtrip-equal")
	}
}

// VerifC02_OtherClientColumn: A's value under another identity is never revealed: Process fails and the
// column comes back unchanged. reader 0 = client B (has its own, different keys), reader 1 = identity without keys.
func VerifC02_OtherClientColumn() {
	InitRegistry(nil)
	s := verifStoreN(1 + verif.Tier())
	wrapper, rh := verifChain(s)
	kind := verif.Choose("kind", 0, 1)
	h := verifHandler(kind)
	d := verif.Bytes("d", 1)
	c, err := rh.EncryptWithHandler(h, []byte("A"), verifDup(d))
	if err != nil {
		return
	}
	reader := "B"
	if verif.Choose("reader", 0, 1) == 1 {
		reader = "C"
	}
	_, err = rh.Process(verifDup(c), &base.DataProcessorContext{Keystore: s, Context: verifCtx(reader)})
	verif.Assert(err != nil, "other-client-process-fails")
	prefix := verif.Bytes("prefix", verif.Choose("p", 0, 1+verif.Tier()))
	col := append(verifDup(prefix), c...)
	_, out, err := wrapper.OnColumn(verifCtx(reader), verifDup(col))
	verif.Reach("column-processed")
	if err == nil {
		verif.Assert(verif.Eq(out, col), "other-client-column-unchanged")
	}
}

// VerifC03_ContainerTamper: the 12-byte container header replaced by arbitrary bytes, truncation and extension:
// Process gives an error or the original; OnColumn hands back the damaged value unchanged or with the original substituted.
func VerifC03_ContainerTamper() {
	InitRegistry(nil)
	s := verifStore()
	wrapper, rh := verifChain(s)
	kind := verif.Choose("kind", 0, 1)
	h := verifHandler(kind)
	d := verif.Bytes("d", 1)
	c, err := rh.EncryptWithHandler(h, []byte("A"), verifDup(d))
	if err != nil {
		return
	}
	var mod []byte
	headerMode := verif.Choose("mode", 0, 1) == 0
	if headerMode {
		mod = verifDup(c)
		copy(mod[:SerializedContainerMinSize], verif.Bytes("hdr", SerializedContainerMinSize))
	} else {
		newLen := verif.Choose("newlen", 0, len(c)+2)
		verif.Assume(newLen != len(c))
		mod = make([]byte, newLen)
		copy(mod, c)
		if newLen > len(c) {
			copy(mod[len(c):], verif.Bytes("ext", newLen-len(c)))
		}
	}
	verif.Assume(!verif.Eq(mod, c))
	out, err := rh.Process(verifDup(mod), &base.DataProcessorContext{Keystore: s, Context: verifCtx("A")})
	verif.Reach("process-returned")
	if err == nil {
		verif.Assert(verif.Eq(out, d), "tampered-original-or-error")
	}
	// thorough: the column processor too, for truncated / extended values (12 arbitrary header bytes through the
	// detector's scan do not finish inside the thorough budget; header edits are decided above and in C14)
	if verif.Tier() == 0 || headerMode {
		return
	}
	_, col, err := wrapper.OnColumn(verifCtx("A"), verifDup(mod))
	verif.Reach("column-returned")
	if err == nil {
		// damaged value handed over unchanged, or the envelope inside it replaced by exactly the original plaintext
		ok := verif.Eq(col, mod)
		for i := 0; i+len(c) <= len(mod); i++ {
			cand := append(append(verifDup(mod[:i]), d...), mod[i+len(c):]...)
			ok = verif.Or(ok, verif.Eq(col, cand))
		}
		inner := len(c) - SerializedContainerMinSize
		for i := 0; i+inner <= len(mod); i++ {
			cand := append(append(verifDup(mod[:i]), d...), mod[i+inner:]...)
			ok = verif.Or(ok, verif.Eq(col, cand))
		}
		verif.Assert(ok, "tampered-column-unchanged-or-original")
	}
}

// VerifC14_OnColumnArbitrary: arbitrary column bytes through the detector chain: no panic, output unchanged.
func VerifC14_OnColumnArbitrary() {
	InitRegistry(nil)
	s := verifStore()
	wrapper, _ := verifChain(s)
	lo, hi := 12, 14
	if verif.Tier() == 1 {
		lo, hi = 0, 24
	}
	data := verif.Bytes("data", verif.Choose("n", lo, hi))
	_, out, err := wrapper.OnColumn(verifCtx("A"), verifDup(data))
	verif.Reach("column-returned")
	if err == nil {
		verif.Assert(verif.Eq(out, data), "garbage-unchanged")
	}
	ExtractSerializedContainer(data)
	DeserializeEncryptedData(data)
	verif.Reach("extractors-returned")
}

//go:build verif

package acracensor

import (
	"github.com/cossacklabs/acra/acra-censor/handlers"
	"github.com/cossacklabs/acra/sqlparser"
	"github.com/cossacklabs/acra/zz_verif/verif"
)

// statement corpus with its ground truth against the two rules used below:
//
//	query rule  "select a from t1 where b = 1"  (normalized text: keyword case and blanks do not matter, literals do)
//	table rule  "t2"
//	pattern rule "select a from t1 where b = %%VALUE%%"
type verifStmt struct {
	sql         string
	parses      bool
	matchQuery  bool // deny/allow [queries]
	usesT2      bool // some table of the statement is t2   (deny [tables])
	onlyT2      bool // every table of the statement is t2  (allow [tables])
	matchSelect bool // matches the select pattern
	matchInsert bool // matches the insert pattern "insert into t1 (a) values (%%VALUE%%)"
}

var verifCorpus = []verifStmt{
	{"select a from t1 where b = 1", true, true, false, false, true, false},
	{"select a from t1 where b = 'x'", true, false, false, false, true, false},
	{"select a from t2 where b = 1", true, false, true, true, false, false},
	{"select a from t1, t2 where t1.b = t2.b", true, false, true, false, false, false},
	{"insert into t1 (a) values (2)", true, false, false, false, false, true},
	{"insert into t2 (a) values (2)", true, false, true, true, false, false},
	{"update t2 set a = 3", true, false, false, false, false, false}, // table rules cover SELECT sources and INSERT targets only
	{"delete from t1 where a = 4", true, false, false, false, false, false},
	{"select a from t1 where b = 1 )))(((", false, false, false, false, false, false},
	// two statements in one packet are not one parseable statement, whatever the first one is
	{"select a from t1 where b = 1; delete from t2", false, false, false, false, false, false},
	{"select a from t1 where b = 1 ; select a from t2 where b = 1", false, false, false, false, false, false},
}

// handler kinds
const (
	kAllowQuery = iota
	kAllowTable
	kAllowPattern
	kDenyQuery
	kDenyTable
	kDenyPattern
	kAllowAll
	kDenyAll
	kKinds
	// insert patterns are exercised by their own harness (recorded finding)
	kAllowInsertPattern = 100
	kDenyInsertPattern  = 101
)

func verifAddHandler(c *AcraCensor, kind int) {
	p := sqlparser.New(sqlparser.ModeStrict)
	switch kind {
	case kAllowQuery, kAllowTable, kAllowPattern:
		h := handlers.NewAllowHandler(p)
		switch kind {
		case kAllowQuery:
			h.AddQueries([]string{"SELECT a  FROM t1 WHERE b = 1"})
		case kAllowTable:
			h.AddTables([]string{"t2"})
		case kAllowPattern:
			h.AddPatterns([]string{"select a from t1 where b = %%VALUE%%"})
		}
		c.AddHandler(h)
	case kDenyQuery, kDenyTable, kDenyPattern:
		h := handlers.NewDenyHandler(p)
		switch kind {
		case kDenyQuery:
			h.AddQueries([]string{"SELECT a  FROM t1 WHERE b = 1"})
		case kDenyTable:
			h.AddTables([]string{"t2"})
		case kDenyPattern:
			h.AddPatterns([]string{"select a from t1 where b = %%VALUE%%"})
		}
		c.AddHandler(h)
	case kAllowInsertPattern:
		h := handlers.NewAllowHandler(p)
		h.AddPatterns([]string{"insert into t1 (a) values (%%VALUE%%)"})
		c.AddHandler(h)
	case kDenyInsertPattern:
		h := handlers.NewDenyHandler(p)
		h.AddPatterns([]string{"insert into t1 (a) values (%%VALUE%%)"})
		c.AddHandler(h)
	case kAllowAll:
		c.AddHandler(handlers.NewAllowallHandler())
	case kDenyAll:
		c.AddHandler(handlers.NewDenyallHandler())
	}
}

// reference evaluation of the documented chain rule; returns true when the statement must be rejected
func verifReference(chain []int, st verifStmt, ignoreParseError bool) bool {
	if !st.parses && !ignoreParseError {
		return true
	}
	for _, k := range chain {
		switch k {
		case kAllowAll:
			return false
		case kDenyAll:
			return true
		}
		if !st.parses {
			continue // rule handlers skip statements they cannot parse
		}
		switch k {
		case kAllowQuery:
			if st.matchQuery {
				return false
			}
		case kAllowTable:
			if st.onlyT2 {
				return false
			}
		case kAllowPattern:
			if st.matchSelect {
				return false
			}
		case kDenyQuery:
			if st.matchQuery {
				return true
			}
		case kDenyTable:
			if st.usesT2 {
				return true
			}
		case kDenyPattern:
			if st.matchSelect {
				return true
			}
		case kAllowInsertPattern:
			if st.matchInsert {
				return false
			}
		case kDenyInsertPattern:
			if st.matchInsert {
				return true
			}
		}
	}
	return false
}

// VerifC05_ChainSemantics: for every chain of 1..2 (quick) / 1..3 (thorough) handlers, with and without
// parse-error tolerance, and every corpus statement, the verdict of AcraCensor.HandleQuery equals the reference.
func VerifC05_ChainSemantics() {
	n := verif.Choose("len", 1, 2+verif.Tier())
	chain := make([]int, n)
	c := NewAcraCensor()
	for i := range chain {
		chain[i] = verif.Choose("kind"+string(rune('0'+i)), 0, kKinds-1)
		verifAddHandler(c, chain[i])
	}
	c.ignoreParseError = verif.Choose("tolerate", 0, 1) == 1
	si := verif.Choose("stmt", 0, len(verifCorpus)-1)
	st := verifCorpus[si]
	err := c.HandleQuery(st.sql)
	verif.Reach("verdict")
	want := verifReference(chain, st, c.ignoreParseError)
	verif.Assert((err != nil) == want, "verdict-equals-reference")
}

// VerifC05_SpellingInvariance: keyword case, the kind of blank between tokens, a trailing semicolon and margin
// comments do not change the verdict.
func VerifC05_SpellingInvariance() {
	c := NewAcraCensor()
	chainSel := verif.Choose("chain", 0, 3)
	switch chainSel {
	case 0:
		verifAddHandler(c, kDenyQuery)
	case 1:
		verifAddHandler(c, kDenyTable)
	case 2:
		verifAddHandler(c, kAllowPattern)
		verifAddHandler(c, kDenyAll)
	case 3:
		verifAddHandler(c, kAllowTable)
		verifAddHandler(c, kDenyAll)
	}
	si := verif.Choose("stmt", 0, 2)
	base := []string{"select a from t1 where b = 1", "select a from t2 where b = 1", "update t2 set a = 3"}[si]
	want := c.HandleQuery(base) != nil
	// variant: symbolic case of three keyword letters, symbolic blanks at the first three gaps, optional suffixes
	v := []byte(base)
	nsym := 2 + verif.Tier()
	caseBits := verif.Bytes("case", nsym)
	letters := 0
	blanks := verif.Bytes("blank", nsym)
	gaps := 0
	for i := 0; i < len(v); i++ {
		if v[i] == ' ' {
			if gaps < nsym {
				verif.Assume(verif.Or(blanks[gaps] == ' ', blanks[gaps] == '\t', blanks[gaps] == '\n'))
				v[i] = blanks[gaps]
				gaps++
			}
			continue
		}
		// first three letters of the leading keyword
		if i < nsym && letters < nsym {
			verif.Assume(caseBits[letters] <= 1)
			v[i] = v[i] - caseBits[letters]*32
			letters++
		}
	}
	switch verif.Choose("suffix", 0, 3) {
	case 1:
		v = append(v, ';')
	case 2:
		v = append(v, []byte(" /* c */")...)
	case 3:
		v = append([]byte("/* c */ "), v...)
	}
	got := c.HandleQuery(string(v)) != nil
	verif.Reach("variant-verdict")
	verif.Assert(got == want, "spelling-does-not-change-verdict")
}

// VerifC05_InsertPattern: an INSERT statement obtained from a pattern by filling its %%VALUE%% is matched by it.
func VerifC05_InsertPattern() {
	c := NewAcraCensor()
	kind := kDenyInsertPattern
	chain := []int{kind}
	if verif.Choose("allow", 0, 1) == 1 {
		chain = []int{kAllowInsertPattern, kDenyAll}
	}
	for _, k := range chain {
		verifAddHandler(c, k)
	}
	si := verif.Choose("stmt", 4, 5)
	st := verifCorpus[si]
	err := c.HandleQuery(st.sql)
	verif.Reach("verdict")
	verif.Assert((err != nil) == verifReference(chain, st, false), "insert-pattern-verdict")
}

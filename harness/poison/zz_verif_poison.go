//go:build verif

package poison

import (
	"context"

	"github.com/cossacklabs/acra/crypto"
	"github.com/cossacklabs/acra/decryptor/base"
	"github.com/cossacklabs/acra/zz_verif/verif"
	"github.com/cossacklabs/acra/zz_verif/vks"
	"github.com/cossacklabs/themis/gothemis/keys"
)

func verifDup(b []byte) []byte { return append([]byte{}, b...) }

type verifCounter struct{ n int }

func (c *verifCounter) Call() error { c.n++; return nil }

// detection store: poison key history of r keys per kind (newest first), client A with ordinary keys
func verifStores(r int) (*vks.Store, [][]byte, []*keys.Keypair) {
	s := vks.New()
	var syms [][]byte
	var pairs []*keys.Keypair
	var seen [][]byte
	ka := verif.Bytes("symA", 32)
	seen = append(seen, ka)
	s.AddSym("A", ka)
	kpa, _ := keys.New(keys.TypeEC)
	s.AddPair("A", kpa)
	for i := 0; i < r; i++ {
		k := verif.Bytes("poison"+string(rune('0'+i)), 32)
		for _, o := range seen {
			verif.Assume(!verif.Eq(k, o))
		}
		seen = append(seen, k)
		syms = append(syms, k)
		kp, _ := keys.New(keys.TypeEC)
		pairs = append(pairs, kp)
	}
	s.PoisonSym = syms
	s.PoisonPairs = pairs
	return s, syms, pairs
}

func verifChain(s *vks.Store, counter *verifCounter) *crypto.OldContainerDetectorWrapper {
	rh := crypto.NewRegistryHandler(s)
	det := crypto.NewEnvelopeDetector()
	wrapper := crypto.NewOldContainerDetectorWrapper(det)
	callbacks := NewCallbackStorage()
	callbacks.AddCallback(counter)
	pd := crypto.NewPoisonRecordsRecognizer(s, rh)
	pd.SetPoisonRecordCallbacks(callbacks)
	det.AddCallback(pd)
	det.AddCallback(crypto.NewDecryptHandler(s, rh))
	return wrapper
}

func verifCtx(id string) context.Context {
	return base.SetAccessContextToContext(context.Background(), base.NewAccessContext(base.WithClientID([]byte(id))))
}

// VerifC15_PoisonDetected: a poison record of either kind, made under the current or a rotated poison key, alone or
// embedded among arbitrary bytes, runs the callbacks before the column value is handed back.
func VerifC15_PoisonDetected() {
	crypto.InitRegistry(nil)
	r := 2 + verif.Tier()
	s, syms, pairs := verifStores(r)
	kind := verif.Choose("kind", 0, 1)
	j := verif.Choose("keygen", 0, r-1) // which key generation made the record
	maker := vks.New()
	maker.PoisonSym = [][]byte{syms[j]}
	maker.PoisonPairs = []*keys.Keypair{pairs[j]}
	var rec []byte
	var err error
	if kind == 0 {
		rec, err = CreateSymmetricPoisonRecord(maker, 2)
	} else {
		rec, err = CreatePoisonRecord(maker, 2)
	}
	verif.Assert(err == nil, "record-created")
	if err != nil {
		return
	}
	hi := 2 + verif.Tier()
	prefix := verif.Bytes("prefix", verif.Choose("p", 0, hi))
	suffix := verif.Bytes("suffix", verif.Choose("s", 0, hi))
	col := append(append(verifDup(prefix), rec...), suffix...)
	counter := &verifCounter{}
	wrapper := verifChain(s, counter)
	wrapper.OnColumn(verifCtx("A"), verifDup(col))
	verif.Reach("column-processed")
	verif.Assert(counter.n >= 1, "poison-callbacks-ran")
}

// VerifC15_OrdinaryDataSilent: ordinary protected values of a client and arbitrary bytes never run the callbacks.
func VerifC15_OrdinaryDataSilent() {
	crypto.InitRegistry(nil)
	s, _, _ := verifStores(2)
	rh := crypto.NewRegistryHandler(s)
	counter := &verifCounter{}
	wrapper := verifChain(s, counter)
	mode := verif.Choose("mode", 0, 2)
	var col []byte
	switch mode {
	case 0, 1:
		name := "acrablock"
		if mode == 1 {
			name = "acrastruct"
		}
		h, _ := crypto.GetHandlerByName(name)
		d := verif.Bytes("d", 2)
		c, err := rh.EncryptWithHandler(h, []byte("A"), verifDup(d))
		if err != nil {
			return
		}
		col = append(verif.Bytes("prefix", verif.Choose("p", 0, 1)), c...)
	case 2:
		col = verif.Bytes("garbage", verif.Choose("n", 12, 14))
	}
	wrapper.OnColumn(verifCtx("A"), verifDup(col))
	verif.Reach("column-processed")
	verif.Assert(counter.n == 0, "no-false-alarm")
}

// VerifC15_PoisonAfterOrdinaryValue: an ordinary protected value (of the reading client or of another one) earlier in the
// same column does not hide a poison record that follows it, whatever bytes stand between them.
func VerifC15_PoisonAfterOrdinaryValue() {
	crypto.InitRegistry(nil)
	s, syms, pairs := verifStores(1)
	s.AddSym("B", []byte("0123456789abcdef0123456789abcdeB"))
	kpb, _ := keys.New(keys.TypeEC)
	s.AddPair("B", kpb)
	maker := vks.New()
	maker.PoisonSym = [][]byte{syms[0]}
	maker.PoisonPairs = []*keys.Keypair{pairs[0]}
	var rec []byte
	var err error
	if verif.Choose("kind", 0, 1) == 0 {
		rec, err = CreateSymmetricPoisonRecord(maker, 2)
	} else {
		rec, err = CreatePoisonRecord(maker, 2)
	}
	if err != nil {
		return
	}
	owner := []byte("A")
	if verif.Choose("owner", 0, 1) == 1 {
		owner = []byte("B")
	}
	name := "acrablock"
	if verif.Choose("ordinary-kind", 0, 1) == 1 {
		name = "acrastruct"
	}
	h, _ := crypto.GetHandlerByName(name)
	ordinary, err := crypto.NewRegistryHandler(s).EncryptWithHandler(h, owner, []byte("ordinary"))
	if err != nil {
		return
	}
	between := verif.Bytes("between", verif.Choose("b", 0, 2+verif.Tier()))
	col := append(append(verifDup(ordinary), between...), rec...)
	counter := &verifCounter{}
	wrapper := verifChain(s, counter)
	wrapper.OnColumn(verifCtx("A"), verifDup(col))
	verif.Reach("column-processed")
	verif.Assert(counter.n >= 1, "poison-callbacks-ran")
}

//go:build verif

package hmac

import (
	"context"

	"github.com/cossacklabs/acra/crypto"
	"github.com/cossacklabs/acra/decryptor/base"
	"github.com/cossacklabs/acra/encryptor/base/config"
	"github.com/cossacklabs/acra/zz_verif/verif"
	"github.com/cossacklabs/acra/zz_verif/vks"
	"github.com/cossacklabs/themis/gothemis/keys"
)

func verifDup(b []byte) []byte { return append([]byte{}, b...) }

func verifStore() *vks.Store {
	s := vks.New()
	ka := verif.Bytes("symA", 32)
	kb := verif.Bytes("symB", 32)
	verif.Assume(!verif.Eq(ka, kb))
	s.AddSym("A", ka)
	s.AddSym("B", kb)
	ha := verif.Bytes("hmacA", 32)
	hb := verif.Bytes("hmacB", 32)
	verif.Assume(!verif.Eq(ha, hb))
	s.HMAC["A"] = ha
	s.HMAC["B"] = hb
	for _, id := range []string{"A", "B"} {
		kp, _ := keys.New(keys.TypeEC)
		s.AddPair(id, kp)
	}
	return s
}

func verifSetting(kind int) *config.BasicColumnEncryptionSetting {
	env := config.CryptoEnvelopeTypeAcraBlock
	if kind == 1 {
		env = config.CryptoEnvelopeTypeAcraStruct
	}
	st := &config.BasicColumnEncryptionSetting{Name: "c", UsedClientID: "A", Searchable: true, CryptoEnvelope: &env}
	if err := config.VerifInitSetting(false, st); err != nil {
		panic("setting")
	}
	return st
}

func verifCtx(id string) context.Context {
	return base.SetAccessContextToContext(context.Background(), base.NewAccessContext(base.WithClientID([]byte(id))))
}

// VerifC09_BlindIndex: the stored value starts with the blind index of the PLAINTEXT under the client's HMAC key:
// equal plaintexts of one client share it, different plaintexts or different clients never do; a value that arrives
// already protected is indexed by its plaintext too; the index length is GetDefaultHashSize().
func VerifC09_BlindIndex() {
	crypto.InitRegistry(nil)
	s := verifStore()
	rh := crypto.NewRegistryHandler(s)
	kind := verif.Choose("kind", 0, 1)
	st := verifSetting(kind)
	enc, _ := NewSearchableEncryptor(s, rh, rh)
	n := verif.Choose("n", 1, 3)
	d1 := verif.Bytes("d1", n)
	d2 := verif.Bytes("d2", n)
	v1, err := enc.EncryptWithClientID([]byte("A"), verifDup(d1), st)
	verif.Assert(err == nil, "encrypt1-no-error")
	if err != nil {
		return
	}
	v2, err := enc.EncryptWithClientID([]byte("A"), verifDup(d2), st)
	verif.Assert(err == nil, "encrypt2-no-error")
	if err != nil {
		return
	}
	hs := GetDefaultHashSize()
	verif.Assert(hs == 33, "hash-size-33")
	ref := GenerateHMAC(verifDup(s.HMAC["A"]), verifDup(d1))
	verif.Assert(len(ref) == hs, "generated-length")
	verif.Reach("indexed")
	verif.Assert(verif.Eq(v1[:hs], ref), "index-is-hmac-of-plaintext")
	same := verif.Eq(d1, d2)
	verif.Assert(verif.Implies(same, verif.Eq(v1[:hs], v2[:hs])), "equal-plaintexts-equal-index")
	verif.Assert(verif.Implies(verif.Not(same), verif.Not(verif.Eq(v1[:hs], v2[:hs]))), "different-plaintexts-different-index")
	// other client, same plaintext
	vb, err := enc.EncryptWithClientID([]byte("B"), verifDup(d1), st)
	if err == nil {
		verif.Assert(!verif.Eq(vb[:hs], v1[:hs]), "other-client-different-index")
	}
	// value that arrives already protected (client-side encryption): indexed by its plaintext
	c, err := rh.EncryptWithClientID([]byte("A"), verifDup(d1), st)
	if err != nil {
		return
	}
	v3, err := enc.EncryptWithClientID([]byte("A"), verifDup(c), st)
	verif.Assert(err == nil, "preprotected-no-error")
	if err == nil {
		verif.Assert(verif.Eq(v3[:hs], ref), "preprotected-index-is-hmac-of-plaintext")
		verif.Assert(verif.Eq(v3[hs:], c), "preprotected-not-rewrapped")
	}
}

// VerifC09_ReadBack: hash ++ envelope through the proxy chain (hmac processor, detector, hmac processor):
// owner gets the plaintext; a value whose index does not match its content is not handed out as plaintext;
// under another client the stored bytes come back unchanged.
func VerifC09_ReadBack() {
	crypto.InitRegistry(nil)
	s := verifStore()
	rh := crypto.NewRegistryHandler(s)
	kind := verif.Choose("kind", 0, 1)
	st := verifSetting(kind)
	enc, _ := NewSearchableEncryptor(s, rh, rh)
	d1 := verif.Bytes("d1", 2)
	d2 := verif.Bytes("d2", 2)
	verif.Assume(!verif.Eq(d1, d2))
	v1, err := enc.EncryptWithClientID([]byte("A"), verifDup(d1), st)
	if err != nil {
		return
	}
	v2, err := enc.EncryptWithClientID([]byte("A"), verifDup(d2), st)
	if err != nil {
		return
	}
	hs := GetDefaultHashSize()
	proc := NewHMACProcessor(s)
	det := crypto.NewEnvelopeDetector()
	wrapper := crypto.NewOldContainerDetectorWrapper(det)
	det.AddCallback(crypto.NewDecryptHandler(s, rh))
	run := func(id string, col []byte) []byte {
		ctx := verifCtx(id)
		ctx, out, _ := proc.OnColumn(ctx, verifDup(col))
		ctx, out, _ = wrapper.OnColumn(ctx, out)
		_, out, _ = proc.OnColumn(ctx, out)
		return out
	}
	mode := verif.Choose("mode", 0, 2)
	switch mode {
	case 0:
		out := run("A", v1)
		verif.Reach("owner-read")
		verif.Assert(verif.Eq(out, d1), "owner-gets-plaintext")
	case 1: // swapped search hash: index of d2 in front of the envelope of d1
		swapped := append(verifDup(v2[:hs]), v1[hs:]...)
		out := run("A", swapped)
		verif.Reach("swapped-read")
		verif.Assert(verif.Eq(out, swapped), "mismatching-index-returned-unchanged")
	case 2:
		out := run("B", v1)
		verif.Reach("other-read")
		verif.Assert(verif.Eq(out, v1), "other-client-unchanged")
	}
}

// VerifC03_SearchableSequence: a longer valid value followed by a shorter damaged one on the same processor:
// the damaged value comes back byte-identical (no residue of the earlier value).
func VerifC03_SearchableSequence() {
	crypto.InitRegistry(nil)
	s := verifStore()
	rh := crypto.NewRegistryHandler(s)
	st := verifSetting(0)
	enc, _ := NewSearchableEncryptor(s, rh, rh)
	long := verif.Bytes("long", 3)
	short := verif.Bytes("short", 1)
	vl, err := enc.EncryptWithClientID([]byte("A"), verifDup(long), st)
	if err != nil {
		return
	}
	vs, err := enc.EncryptWithClientID([]byte("A"), verifDup(short), st)
	if err != nil {
		return
	}
	hs := GetDefaultHashSize()
	proc := NewHMACProcessor(s)
	det := crypto.NewEnvelopeDetector()
	wrapper := crypto.NewOldContainerDetectorWrapper(det)
	det.AddCallback(crypto.NewDecryptHandler(s, rh))
	run := func(col []byte) []byte {
		ctx := verifCtx("A")
		ctx, out, _ := proc.OnColumn(ctx, verifDup(col))
		ctx, out, _ = wrapper.OnColumn(ctx, out)
		_, out, _ = proc.OnColumn(ctx, out)
		return out
	}
	out := run(vl)
	verif.Assert(verif.Eq(out, long), "first-value-revealed")
	damaged := append(verifDup(vl[:hs]), vs[hs:]...) // index of the long value on the short envelope
	out = run(damaged)
	verif.Reach("second-read")
	verif.Assert(verif.Eq(out, damaged), "damaged-value-unchanged")
}

// VerifC03_SearchableLongPlaintextThenNext: a searchable value whose plaintext is as long as an index (33 bytes or
// more) and starts with any byte — including the index tag byte — is revealed, and the same processor then handles
// the next column (garbage, or another searchable value) without going down and without changing garbage.
func VerifC03_SearchableLongPlaintextThenNext() {
	crypto.InitRegistry(nil)
	s := verifStore()
	rh := crypto.NewRegistryHandler(s)
	st := verifSetting(0)
	enc, _ := NewSearchableEncryptor(s, rh, rh)
	hs := GetDefaultHashSize()
	plain := make([]byte, hs+verif.Choose("extra", 0, 1))
	for i := range plain {
		plain[i] = 'p'
	}
	plain[0] = verif.U8("first")
	v1, err := enc.EncryptWithClientID([]byte("A"), verifDup(plain), st)
	if err != nil {
		return
	}
	v2, err := enc.EncryptWithClientID([]byte("A"), []byte("z"), st)
	if err != nil {
		return
	}
	proc := NewHMACProcessor(s)
	det := crypto.NewEnvelopeDetector()
	wrapper := crypto.NewOldContainerDetectorWrapper(det)
	det.AddCallback(crypto.NewDecryptHandler(s, rh))
	run := func(col []byte) []byte {
		ctx := verifCtx("A")
		ctx, out, _ := proc.OnColumn(ctx, verifDup(col))
		ctx, out, _ = wrapper.OnColumn(ctx, out)
		_, out, _ = proc.OnColumn(ctx, out)
		return out
	}
	out := run(v1)
	verif.Assert(verif.Eq(out, plain), "long-value-revealed")
	verif.Reach("first-read")
	if verif.Choose("next", 0, 1) == 0 {
		garbage := verif.Bytes("garbage", 2)
		out = run(garbage)
		verif.Assert(verif.Eq(out, garbage), "next-column-garbage-unchanged")
	} else {
		out = run(v2)
		verif.Assert(verif.Eq(out, []byte("z")), "next-searchable-value-revealed")
	}
	verif.Reach("second-read")
}

// VerifC03_SearchableTruncation: a stored searchable value (index ++ envelope) cut off at any length goes through the
// read path without bringing it down, and comes back as it was stored (or, while still complete, as the original).
func VerifC03_SearchableTruncation() {
	crypto.InitRegistry(nil)
	s := verifStore()
	rh := crypto.NewRegistryHandler(s)
	st := verifSetting(verif.Choose("envelope", 0, 1))
	enc, _ := NewSearchableEncryptor(s, rh, rh)
	// concrete HMAC key and plaintext: the index is then a concrete 33-byte value (the cut position is what varies)
	s.HMAC["A"] = []byte("hmac-key-of-client-A-0123456789ab")
	plain := []byte("p")
	v, err := enc.EncryptWithClientID([]byte("A"), verifDup(plain), st)
	if err != nil {
		return
	}
	cut := verif.Choose("cut", 0, len(v))
	col := make([]byte, cut) // exactly that long, no spare capacity behind it
	copy(col, v)
	proc := NewHMACProcessor(s)
	det := crypto.NewEnvelopeDetector()
	wrapper := crypto.NewOldContainerDetectorWrapper(det)
	det.AddCallback(crypto.NewDecryptHandler(s, rh))
	ctx := verifCtx("A")
	ctx, out, _ := proc.OnColumn(ctx, verifDup(col))
	ctx, out, _ = wrapper.OnColumn(ctx, out)
	_, out, _ = proc.OnColumn(ctx, out)
	verif.Reach("read")
	if cut == len(v) {
		verif.Assert(verif.Eq(out, plain), "complete-value-revealed")
	} else {
		verif.Assert(verif.Eq(out, col), "truncated-value-unchanged")
	}
	// the stand-alone parsers of the same value
	h := ExtractHash(verifDup(col))
	if h != nil {
		verif.Assert(h.Length() <= cut, "hash-within-data")
	}
}

// VerifC14_ExtractHash: arbitrary bytes never panic the hash extractor.
func VerifC14_ExtractHash() {
	n := verif.Choose("n", 0, 36)
	data := make([]byte, n)
	k := 2
	if n < k {
		k = n
	}
	copy(data, verif.Bytes("head", k))
	h := ExtractHash(data)
	verif.Reach("extracted")
	if h != nil {
		verif.Assert(h.Length() <= n, "hash-within-data")
	}
	ExtractHashAndData(data)
}

// VerifC03_AfterDamagedValue: a damaged searchable value (index of one value on the envelope of another) leaves
// nothing behind: the value processed next on the same connection — another searchable value, arbitrary bytes, or
// the same damaged value again — is revealed or returned on its own merits.
func VerifC03_AfterDamagedValue() {
	crypto.InitRegistry(nil)
	s := verifStore()
	rh := crypto.NewRegistryHandler(s)
	st := verifSetting(verif.Choose("kind", 0, 1))
	enc, _ := NewSearchableEncryptor(s, rh, rh)
	d1, d2 := []byte("first value"), []byte("second") // the values are fixed here; what varies is what comes next
	v1, err := enc.EncryptWithClientID([]byte("A"), verifDup(d1), st)
	if err != nil {
		return
	}
	v2, err := enc.EncryptWithClientID([]byte("A"), verifDup(d2), st)
	if err != nil {
		return
	}
	hs := GetDefaultHashSize()
	proc := NewHMACProcessor(s)
	det := crypto.NewEnvelopeDetector()
	wrapper := crypto.NewOldContainerDetectorWrapper(det)
	det.AddCallback(crypto.NewDecryptHandler(s, rh))
	run := func(col []byte) []byte {
		ctx := verifCtx("A")
		ctx, out, _ := proc.OnColumn(ctx, verifDup(col))
		ctx, out, _ = wrapper.OnColumn(ctx, out)
		_, out, _ = proc.OnColumn(ctx, out)
		return out
	}
	damaged := append(verifDup(v2[:hs]), v1[hs:]...)
	out := run(damaged)
	verif.Assert(verif.Eq(out, damaged), "damaged-value-unchanged")
	verif.Reach("damaged-read")
	switch verif.Choose("next", 0, 2) {
	case 0:
		garbage := verif.Bytes("garbage", verif.Choose("n", 0, 2))
		out = run(garbage)
		verif.Assert(verif.Eq(out, garbage), "next-column-garbage-unchanged")
	case 1:
		out = run(damaged)
		verif.Assert(verif.Eq(out, damaged), "damaged-value-again-unchanged")
	case 2:
		out = run(v2)
		verif.Assert(verif.Eq(out, d2), "next-searchable-value-revealed")
	}
	verif.Reach("next-read")
}

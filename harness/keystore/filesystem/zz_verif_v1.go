//go:build verif

package filesystem

import (
	"github.com/cossacklabs/acra/keystore"
	"github.com/cossacklabs/acra/zz_verif/verif"
	"github.com/cossacklabs/acra/zz_verif/vfs"
	"github.com/cossacklabs/themis/gothemis/keys"
)

func verifDup(b []byte) []byte { return append([]byte{}, b...) }

func verifStore(st Storage, cacheSize int) *KeyStore {
	enc, err := keystore.NewSCellKeyEncryptor(verif.Bytes("master", 32))
	if err != nil {
		panic("encryptor")
	}
	ks, err := NewCustomFilesystemKeyStore().KeyDirectory("/keys").Encryptor(enc).Storage(st).CacheSize(cacheSize).Build()
	if err != nil {
		panic("keystore: " + err.Error())
	}
	return ks
}

func verifContains(list [][]byte, k []byte) bool {
	r := false
	for _, x := range list {
		r = verif.Or(r, verif.Eq(x, k))
	}
	return r
}

// VerifC06_V1SymmetricRotateDestroy: keystore v1 without key cache. After r generations the current key is the
// newest and all keys are offered newest-first; destroying a rotated key by the index shown in the listing removes
// exactly that key; an index that is not listed is refused and removes nothing.
func VerifC06_V1SymmetricRotateDestroy() {
	fsys := vfs.New()
	fsys.MkdirAll("/keys", 0700)
	ks := verifStore(fsys, keystore.WithoutCache)
	id := []byte("client")
	r := 3
	var gen [][]byte
	for i := 0; i < r; i++ {
		verif.Assert(ks.GenerateClientIDSymmetricKey(id) == nil, "generate")
		k, err := ks.GetClientIDSymmetricKey(id)
		verif.Assert(err == nil, "current-readable")
		if err != nil {
			return
		}
		for _, o := range gen {
			verif.Assume(!verif.Eq(o, k))
		}
		gen = append(gen, verifDup(k))
	}
	all, err := ks.GetClientIDSymmetricKeys(id)
	verif.Assert(err == nil, "all-readable")
	if err != nil {
		return
	}
	verif.Assert(len(all) == r, "all-count")
	for i := 0; i < r && i < len(all); i++ {
		verif.Assert(verif.Eq(all[i], gen[r-1-i]), "all-newest-first")
	}
	listing, err := ks.ListRotatedKeys()
	verif.Assert(err == nil, "listing")
	if err != nil {
		return
	}
	verif.Assert(len(listing) == r-1, "listing-count")
	for j := range listing {
		verif.Assert(listing[j].Index == j+2, "listing-index")
	}
	// rotated keys, oldest first, are gen[0..r-2]; listing index j+2 stands for gen[j]
	idx := verif.Choose("index", -1, r+2)
	err = ks.DestroyRotatedClientIDSymmetricKey(id, idx)
	verif.Reach("destroy-returned")
	listed := idx >= 2 && idx-2 < r-1
	ks2 := verifStore(fsys, keystore.WithoutCache)
	after, err2 := ks2.GetClientIDSymmetricKeys(id)
	verif.Assert(err2 == nil, "all-readable-after-destroy")
	if err2 != nil {
		return
	}
	if listed {
		verif.Assert(err == nil, "listed-index-destroyed")
		verif.Assert(len(after) == r-1, "exactly-one-key-removed")
		for i := 0; i < r; i++ {
			if i == idx-2 {
				verif.Assert(!verifContains(after, gen[i]), "chosen-key-removed")
			} else {
				verif.Assert(verifContains(after, gen[i]), "other-keys-kept")
			}
		}
	} else {
		verif.Assert(err != nil, "unlisted-index-refused")
		verif.Assert(len(after) == r, "nothing-removed")
	}
	cur, err := ks2.GetClientIDSymmetricKey(id)
	verif.Assert(err == nil, "current-still-readable")
	if err == nil {
		verif.Assert(verif.Eq(cur, gen[r-1]), "current-unchanged")
	}
}

// VerifC06_V1CacheAfterRotation: with the key cache on, after a rotation through the same handle the all-keys
// reader never stops offering a key it offered before, and as soon as the cache is reset the handle shows the new
// current key first and the older key after it.
func VerifC06_V1CacheAfterRotation() {
	fsys := vfs.New()
	fsys.MkdirAll("/keys", 0700)
	ks := verifStore(fsys, keystore.InfiniteCacheSize)
	id := []byte("client")
	verif.Assert(ks.GenerateClientIDSymmetricKey(id) == nil, "generate1")
	k1, err := ks.GetClientIDSymmetricKey(id)
	if err != nil {
		verif.Assert(false, "read1")
		return
	}
	all1, err := ks.GetClientIDSymmetricKeys(id)
	verif.Assert(err == nil && len(all1) == 1, "all1")
	verif.Assert(ks.GenerateClientIDSymmetricKey(id) == nil, "generate2")
	all2, err := ks.GetClientIDSymmetricKeys(id)
	verif.Reach("read-after-rotation")
	verif.Assert(err == nil, "all2-readable")
	if err != nil {
		return
	}
	verif.Assert(verifContains(all2, k1), "key-offered-before-still-offered")
	ks.Reset()
	k2, err := ks.GetClientIDSymmetricKey(id)
	verif.Assert(err == nil, "read2-after-reset")
	if err != nil {
		return
	}
	verif.Assume(!verif.Eq(k1, k2)) // two fresh random keys
	all3, err := ks.GetClientIDSymmetricKeys(id)
	verif.Assert(err == nil, "all3-readable")
	if err == nil {
		verif.Assert(len(all3) == 2, "after-reset-both-keys")
		verif.Assert(verif.Eq(all3[0], k2), "after-reset-newest-first")
		verif.Assert(verif.Eq(all3[1], k1), "after-reset-older-second")
	}
	// a handle opened on the same storage without cache agrees
	plain := verifStore(fsys, keystore.WithoutCache)
	cur, err := plain.GetClientIDSymmetricKey(id)
	if err == nil {
		verif.Assert(verif.Eq(cur, k2), "uncached-handle-sees-new-current")
	}
}

// VerifC02_V1HmacKeys: search (HMAC) keys of two clients generated and read through one cached keystore handle:
// the key read back is the key persisted on disk (as a fresh, cache-less handle sees it) and the clients' keys differ.
func VerifC02_V1HmacKeys() {
	fsys := vfs.New()
	fsys.MkdirAll("/keys", 0700)
	cached := verifStore(fsys, keystore.InfiniteCacheSize)
	verif.Assert(cached.GenerateHmacKey([]byte("a")) == nil, "generate-a")
	verif.Assert(cached.GenerateHmacKey([]byte("b")) == nil, "generate-b")
	ka, err := cached.GetHMACSecretKey([]byte("a"))
	verif.Assert(err == nil, "read-a")
	kb, err2 := cached.GetHMACSecretKey([]byte("b"))
	verif.Assert(err2 == nil, "read-b")
	if err != nil || err2 != nil {
		return
	}
	plain := verifStore(fsys, keystore.WithoutCache)
	da, err := plain.GetHMACSecretKey([]byte("a"))
	verif.Assert(err == nil, "disk-read-a")
	db, err2 := plain.GetHMACSecretKey([]byte("b"))
	verif.Assert(err2 == nil, "disk-read-b")
	if err != nil || err2 != nil {
		return
	}
	verif.Reach("both-read")
	verif.Assume(!verif.Eq(da, db)) // two fresh random keys
	verif.Assert(verif.Eq(ka, da), "cached-key-equals-persisted-key-a")
	verif.Assert(verif.Eq(kb, db), "cached-key-equals-persisted-key-b")
	verif.Assert(!verif.Eq(ka, kb), "clients-have-different-keys")
}

// VerifC02_V1KeyFilesBoundToOwner: client A's key files copied onto client B's names do not load as B's keys.
func VerifC02_V1KeyFilesBoundToOwner() {
	fsys := vfs.New()
	fsys.MkdirAll("/keys", 0700)
	ks := verifStore(fsys, keystore.WithoutCache)
	a, b := []byte("alice"), []byte("bobby")
	verif.Assert(ks.GenerateClientIDSymmetricKey(a) == nil, "generate-sym")
	verif.Assert(ks.GenerateHmacKey(a) == nil, "generate-hmac")
	verif.Assert(ks.GenerateDataEncryptionKeys(a) == nil, "generate-pair")
	for _, f := range fsys.Files() {
		data, _ := fsys.Raw(f)
		name := f[len("/keys/"):]
		if len(name) > 5 && name[:5] == "alice" {
			fsys.WriteFile("/keys/bobby"+name[5:], verifDup(data), 0600)
		}
	}
	ks2 := verifStore(fsys, keystore.WithoutCache)
	_, err := ks2.GetClientIDSymmetricKey(b)
	verif.Reach("copied")
	verif.Assert(err != nil, "copied-symmetric-key-does-not-load")
	_, err = ks2.GetHMACSecretKey(b)
	verif.Assert(err != nil, "copied-hmac-key-does-not-load")
	_, err = ks2.GetServerDecryptionPrivateKey(b)
	verif.Assert(err != nil, "copied-private-key-does-not-load")
}

// VerifC08_V1FaultDuringRotation: a client symmetric key exists; it is rotated while one storage call fails or the
// process dies right before/after it. After restart every key that was readable before still reads with the same
// bytes, the current key is the old or the new one, and listing plus a further rotation work.
func VerifC08_V1FaultDuringRotation() {
	fsys := vfs.New()
	fsys.MkdirAll("/keys", 0700)
	faulty := vfs.NewFaulty(fsys)
	ks := verifStore(faulty, keystore.WithoutCache)
	id := []byte("client")
	if ks.GenerateClientIDSymmetricKey(id) != nil {
		return
	}
	k1, err := ks.GetClientIDSymmetricKey(id)
	if err != nil {
		return
	}
	fa := verif.Choose("fault-at", 0, 7)
	mode := verif.Choose("fault-mode", 0, 2)
	faulty.FaultAt = faulty.Calls + fa
	faulty.FaultMode = mode
	start := len(faulty.Trace)
	var opErr error
	crashed := false
	func() {
		defer func() {
			if r := recover(); r != nil {
				if _, ok := r.(vfs.Crash); ok {
					crashed = true
					return
				}
				panic(r)
			}
		}()
		opErr = ks.GenerateClientIDSymmetricKey(id)
	}()
	faulty.FaultAt = -1
	call := "none"
	if start+fa < len(faulty.Trace) {
		call = faulty.Trace[start+fa]
	}
	scen := "/" + call + string(rune('0'+fa)) + "/" + []string{"error", "crash-before", "crash-after"}[mode]
	verif.Reach("after-fault")
	ks2 := verifStore(vfs.NewFaulty(fsys), keystore.WithoutCache)
	all, err := ks2.GetClientIDSymmetricKeys(id)
	verif.Assert(err == nil, "keys-readable-after-fault"+scen)
	if err != nil {
		return
	}
	verif.Assert(verifContains(all, k1), "old-key-still-offered"+scen)
	verif.Assert(len(all) == 1 || len(all) == 2, "old-or-new-version"+scen)
	if !crashed && opErr == nil {
		verif.Assert(len(all) == 2, "successful-rotation-keeps-old-key"+scen)
	}
	_, err = ks2.ListKeys()
	verif.Assert(err == nil, "listing-works"+scen)
	_, err = ks2.ListRotatedKeys()
	verif.Assert(err == nil, "rotated-listing-works"+scen)
	verif.Assert(ks2.GenerateClientIDSymmetricKey(id) == nil, "follow-up-rotation-accepted"+scen)
	after, err := ks2.GetClientIDSymmetricKeys(id)
	verif.Assert(err == nil, "keys-readable-after-follow-up"+scen)
	if err == nil {
		verif.Assert(verifContains(after, k1), "old-key-survives-follow-up"+scen)
	}
}

func verifStoreIn(st Storage, private, public string, master string) (*KeyStore, keystore.KeyEncryptor) {
	enc, err := keystore.NewSCellKeyEncryptor(verif.Bytes(master, 32))
	if err != nil {
		panic("encryptor")
	}
	b := NewCustomFilesystemKeyStore().KeyDirectory(private).Encryptor(enc).Storage(st).CacheSize(keystore.WithoutCache)
	if public != private {
		b = NewCustomFilesystemKeyStore().KeyDirectories(private, public).Encryptor(enc).Storage(st).CacheSize(keystore.WithoutCache)
	}
	ks, err := b.Build()
	if err != nil {
		panic("keystore: " + err.Error())
	}
	return ks, enc
}

// VerifC18_V1Backup: keystore v1 KeyBackuper between two key stores under different master keys, one or two key
// directories. After export + import the target offers the same keys: symmetric keys (with history), the HMAC key,
// the storage key pair (private keys with history, public key) — for "export all" and for a selection by key id.
func VerifC18_V1Backup() {
	twoDirs := verif.Choose("dirs", 1, 2) == 2
	byID := verif.Choose("selection", 0, 1) == 1
	src := vfs.New()
	priv, pub := "/keys", "/keys"
	if twoDirs {
		pub = "/pub"
	}
	src.MkdirAll(priv, 0700)
	src.MkdirAll(pub, 0700)
	ks, enc := verifStoreIn(src, priv, pub, "master")
	// client ids whose last characters are also characters of the key file suffixes ("_hmac", "_storage", "_sym")
	ids := []string{"client", "client_alpha", "team_m", "opsx_"}
	id := []byte(ids[verif.Choose("client-id", 0, len(ids)-1)])
	verif.Assert(ks.GenerateClientIDSymmetricKey(id) == nil, "generate-sym-1")
	verif.Assert(ks.GenerateClientIDSymmetricKey(id) == nil, "generate-sym-2")
	verif.Assert(ks.GenerateHmacKey(id) == nil, "generate-hmac")
	verif.Assert(ks.GenerateDataEncryptionKeys(id) == nil, "generate-pair-1")
	verif.Assert(ks.GenerateDataEncryptionKeys(id) == nil, "generate-pair-2")
	wantSym, err := ks.GetClientIDSymmetricKeys(id)
	verif.Assert(err == nil && len(wantSym) == 2, "source-symmetric-keys")
	wantHmac, err1 := ks.GetHMACSecretKey(id)
	wantPriv, err2 := ks.GetServerDecryptionPrivateKeys(id)
	wantPub, err3 := ks.GetClientIDEncryptionPublicKey(id)
	verif.Assert(err1 == nil && err2 == nil && err3 == nil && len(wantPriv) == 2, "source-keys")
	if err != nil || err1 != nil || err2 != nil || err3 != nil || len(wantSym) != 2 || len(wantPriv) != 2 {
		return
	}
	bk, err := NewKeyBackuper(priv, pub, src, enc, ks)
	if err != nil {
		return
	}
	var backup *keystore.KeysBackup
	if byID {
		backup, err = bk.Export([]keystore.ExportID{
			{KeyKind: keystore.KeySymmetric, ContextID: id}, {KeyKind: keystore.KeySearch, ContextID: id},
			{KeyKind: keystore.KeyStoragePrivate, ContextID: id}, {KeyKind: keystore.KeyStoragePublic, ContextID: id}}, keystore.ExportPrivateKeys)
	} else {
		backup, err = bk.Export(nil, keystore.ExportAllKeys)
	}
	verif.Reach("exported")
	verif.Assert(err == nil, "export-no-error")
	if err != nil {
		return
	}
	dst := vfs.New()
	dst.MkdirAll(priv, 0700)
	dst.MkdirAll(pub, 0700)
	ks2, enc2 := verifStoreIn(dst, priv, pub, "master2")
	bk2, err := NewKeyBackuper(priv, pub, dst, enc2, ks2)
	if err != nil {
		return
	}
	_, err = bk2.Import(backup)
	verif.Assert(err == nil, "import-no-error")
	if err != nil {
		return
	}
	t, _ := verifStoreIn(dst, priv, pub, "master2")
	verif.Reach("imported")
	if gotSym, err := t.GetClientIDSymmetricKeys(id); err != nil {
		verif.Assert(false, "target-has-the-symmetric-keys")
	} else if byID {
		// a selection by id carries the current key
		verif.Assert(len(gotSym) >= 1 && verif.Eq(gotSym[0], wantSym[0]), "target-current-symmetric-key-identical")
	} else {
		verif.Assert(len(gotSym) == 2 && verif.Eq(gotSym[0], wantSym[0]) && verif.Eq(gotSym[1], wantSym[1]), "target-symmetric-keys-identical-and-ordered")
	}
	if gotHmac, err := t.GetHMACSecretKey(id); err != nil {
		verif.Assert(false, "target-has-the-hmac-key")
	} else {
		verif.Assert(verif.Eq(gotHmac, wantHmac), "target-hmac-key-identical")
	}
	if gotPub, err := t.GetClientIDEncryptionPublicKey(id); err != nil {
		verif.Assert(false, "target-has-the-public-key")
	} else {
		verif.Assert(verif.Eq(gotPub.Value, wantPub.Value), "target-public-key-identical")
	}
	if gotPriv, err := t.GetServerDecryptionPrivateKeys(id); err != nil {
		verif.Assert(false, "target-has-the-private-keys")
	} else if byID {
		verif.Assert(len(gotPriv) >= 1 && verif.Eq(gotPriv[0].Value, wantPriv[0].Value), "target-current-private-key-identical")
	} else {
		verif.Assert(len(gotPriv) == 2 && verif.Eq(gotPriv[0].Value, wantPriv[0].Value) && verif.Eq(gotPriv[1].Value, wantPriv[1].Value), "target-private-keys-identical-and-ordered")
	}
	if !byID && twoDirs {
		// the directory layout is part of what a restore has to reproduce: public files (history included) stay public
		srcPub, err1 := ReadDir(src, pub)
		dstPub, err2 := ReadDir(dst, pub)
		verif.Assert(err1 == nil && err2 == nil && len(srcPub) == len(dstPub), "public-directory-has-the-same-files")
	}
}

// VerifC06_V1KeyPairAndPoisonRotateDestroy: the same for the key kinds that consist of two files (storage key pair,
// private and public key directories possibly different) and for the poison symmetric key: newest first, listed index
// removes exactly that generation, unlisted refused, current untouched.
func VerifC06_V1KeyPairAndPoisonRotateDestroy() {
	twoDirs := verif.Choose("dirs", 1, 2) == 2
	fsys := vfs.New()
	priv, pub := "/keys", "/keys"
	if twoDirs {
		pub = "/pub"
	}
	fsys.MkdirAll(priv, 0700)
	fsys.MkdirAll(pub, 0700)
	ks, _ := verifStoreIn(fsys, priv, pub, "master")
	id := []byte("client")
	poison := verif.Choose("kind", 0, 1) == 1
	r := 3
	var gen [][]byte
	read := func(s *KeyStore) ([][]byte, error) {
		if poison {
			return s.GetPoisonSymmetricKeys()
		}
		ps, err := s.GetServerDecryptionPrivateKeys(id)
		var out [][]byte
		for _, p := range ps {
			out = append(out, p.Value)
		}
		return out, err
	}
	for i := 0; i < r; i++ {
		if poison {
			verif.Assert(ks.GeneratePoisonSymmetricKey() == nil, "generate")
		} else {
			verif.Assert(ks.GenerateDataEncryptionKeys(id) == nil, "generate")
		}
		all, err := read(ks)
		verif.Assert(err == nil && len(all) == i+1, "all-readable")
		if err != nil || len(all) != i+1 {
			return
		}
		for _, o := range gen {
			verif.Assume(!verif.Eq(o, all[0]))
		}
		gen = append(gen, verifDup(all[0]))
	}
	all, err := read(ks)
	if err != nil || len(all) != r {
		verif.Assert(false, "all-count")
		return
	}
	for i := 0; i < r; i++ {
		verif.Assert(verif.Eq(all[i], gen[r-1-i]), "all-newest-first")
	}
	var pubBefore []byte
	if !poison {
		pk, err := ks.GetClientIDEncryptionPublicKey(id)
		verif.Assert(err == nil, "public-key-readable")
		if err == nil {
			pubBefore = verifDup(pk.Value)
		}
	}
	idx := verif.Choose("index", 0, r+1)
	if poison {
		err = ks.DestroyRotatedPoisonSymmetricKey(idx)
	} else {
		err = ks.DestroyRotatedClientIDEncryptionKeyPair(id, idx)
	}
	verif.Reach("destroy-returned")
	listed := idx >= 2 && idx-2 < r-1
	ks2, _ := verifStoreIn(fsys, priv, pub, "master")
	after, err2 := read(ks2)
	verif.Assert(err2 == nil, "all-readable-after-destroy")
	if err2 != nil {
		return
	}
	if listed {
		verif.Assert(err == nil, "listed-index-destroyed")
		verif.Assert(len(after) == r-1, "exactly-one-key-removed")
		for i := 0; i < r; i++ {
			if i == idx-2 {
				verif.Assert(!verifContains(after, gen[i]), "chosen-key-removed")
			} else {
				verif.Assert(verifContains(after, gen[i]), "other-keys-kept")
			}
		}
	} else {
		verif.Assert(err != nil, "unlisted-index-refused")
		verif.Assert(len(after) == r, "nothing-removed")
	}
	verif.Assert(len(after) > 0 && verif.Eq(after[0], gen[r-1]), "current-unchanged")
	if !poison {
		pk, err := ks2.GetClientIDEncryptionPublicKey(id)
		verif.Assert(err == nil && verif.Eq(pk.Value, pubBefore), "current-public-key-unchanged")
	}
}

// VerifC08_V1KeyPairFault: a key pair lives in two files. Whatever single storage fault (error, crash before, crash
// after) interrupts its rotation, after a restart the public key that new data would be encrypted with belongs to one
// of the private keys the store offers for decryption, the pair from before the fault is still usable, and a
// follow-up rotation is accepted.
func VerifC08_V1KeyPairFault() {
	twoDirs := verif.Choose("dirs", 1, 2) == 2
	fsys := vfs.New()
	priv, pub := "/keys", "/keys"
	if twoDirs {
		pub = "/pub"
	}
	fsys.MkdirAll(priv, 0700)
	fsys.MkdirAll(pub, 0700)
	faulty := vfs.NewFaulty(fsys)
	ks, _ := verifStoreIn(faulty, priv, pub, "master")
	id := []byte("client")
	if ks.GenerateDataEncryptionKeys(id) != nil {
		return
	}
	p1, err := ks.GetServerDecryptionPrivateKey(id)
	if err != nil {
		return
	}
	old := verifDup(p1.Value)
	fa := verif.Choose("fault-at", 0, 11)
	mode := verif.Choose("fault-mode", 0, 2)
	faulty.FaultAt = faulty.Calls + fa
	faulty.FaultMode = mode
	start := len(faulty.Trace)
	func() {
		defer func() {
			if r := recover(); r != nil {
				if _, ok := r.(vfs.Crash); ok {
					return
				}
				panic(r)
			}
		}()
		ks.GenerateDataEncryptionKeys(id)
	}()
	faulty.FaultAt = -1
	call := "none"
	if start+fa < len(faulty.Trace) {
		call = faulty.Trace[start+fa]
	}
	scen := "/" + call + string(rune('a'+fa)) + "/" + []string{"error", "crash-before", "crash-after"}[mode]
	verif.Reach("after-fault")
	ks2, _ := verifStoreIn(vfs.NewFaulty(fsys), priv, pub, "master")
	privs, err := ks2.GetServerDecryptionPrivateKeys(id)
	verif.Assert(err == nil, "private-keys-readable-after-fault"+scen)
	pk, err2 := ks2.GetClientIDEncryptionPublicKey(id)
	verif.Assert(err2 == nil, "public-key-readable-after-fault"+scen)
	if err != nil || err2 != nil {
		return
	}
	var values [][]byte
	paired := false
	for _, p := range privs {
		values = append(values, p.Value)
		paired = verif.Or(paired, keys.IsPair(p.Value, pk.Value))
	}
	verif.Assert(verifContains(values, old), "old-private-key-still-offered"+scen)
	verif.Assert(paired, "public-key-has-its-private-key"+scen)
	verif.Assert(ks2.GenerateDataEncryptionKeys(id) == nil, "follow-up-rotation-accepted"+scen)
}

// VerifC06_V1ListingSeveralKeys: with two clients that both have rotation history, the index the listing shows for a
// rotated key of either client is the index that destroys exactly that key (and nothing of the other client).
func VerifC06_V1ListingSeveralKeys() {
	fsys := vfs.New()
	fsys.MkdirAll("/keys", 0700)
	ks := verifStore(fsys, keystore.WithoutCache)
	ids := [][]byte{[]byte("alice"), []byte("bobby")}
	gen := map[string][][]byte{}
	for i := 0; i < 3; i++ {
		for _, id := range ids {
			verif.Assert(ks.GenerateClientIDSymmetricKey(id) == nil, "generate")
			k, err := ks.GetClientIDSymmetricKey(id)
			if err != nil {
				verif.Assert(false, "current-readable")
				return
			}
			for _, o := range gen["alice"] {
				verif.Assume(!verif.Eq(o, k))
			}
			for _, o := range gen["bobby"] {
				verif.Assume(!verif.Eq(o, k))
			}
			gen[string(id)] = append(gen[string(id)], verifDup(k))
		}
	}
	listing, err := ks.ListRotatedKeys()
	verif.Assert(err == nil, "listing")
	if err != nil {
		return
	}
	who := ids[verif.Choose("client", 0, 1)]
	var indexes []int
	for _, d := range listing {
		if d.ClientID == string(who) && d.Purpose == keystore.PurposeStorageClientSymmetricKey {
			indexes = append(indexes, d.Index)
		}
	}
	verif.Assert(len(indexes) == 2, "two-rotated-keys-listed-per-client")
	if len(indexes) != 2 {
		return
	}
	verif.Assert(indexes[0] == 2 && indexes[1] == 3, "listed-indexes-start-at-2-for-every-key")
	which := verif.Choose("which", 0, 1)
	err = ks.DestroyRotatedClientIDSymmetricKey(who, indexes[which])
	verif.Reach("destroy-returned")
	verif.Assert(err == nil, "listed-index-accepted")
	ks2 := verifStore(fsys, keystore.WithoutCache)
	for _, id := range ids {
		after, err := ks2.GetClientIDSymmetricKeys(id)
		verif.Assert(err == nil, "all-readable-after-destroy")
		if err != nil {
			return
		}
		g := gen[string(id)]
		for i := 0; i < 3; i++ {
			removed := string(id) == string(who) && i == which
			if removed {
				verif.Assert(!verifContains(after, g[i]), "chosen-key-removed")
			} else {
				verif.Assert(verifContains(after, g[i]), "other-keys-kept")
			}
		}
	}
}

//go:build verif

package backend

import (
	"strings"

	log "github.com/sirupsen/logrus"

	"github.com/cossacklabs/acra/zz_verif/verif"
)

// VerifC07_OsPathConfinement: whatever key path is given, the OS path handed to the file system stays inside the root.
func VerifC07_OsPathConfinement() {
	b := &DirectoryBackend{root: "/ks", log: log.NewEntry(log.StandardLogger())}
	hi := 5
	if verif.Tier() == 1 {
		hi = 6
	}
	raw := verif.Bytes("path", verif.Choose("n", 0, hi))
	if verif.Tier() == 0 {
		for i := range raw {
			verif.Assume(verif.Or(raw[i] == '/', raw[i] == '\\', raw[i] == '.', raw[i] == 'a'))
		}
	} else {
		for i := range raw {
			verif.Assume(raw[i] < 0x80)
		}
	}
	p, err := b.osPath(string(raw))
	verif.Reach("mapped")
	if err != nil {
		return
	}
	inside := p == "/ks" || strings.HasPrefix(p, "/ks/")
	verif.Assert(inside, "os-path-inside-root")
	// ... also after the operating system has resolved it: no ".." component is left to climb out with
	verif.Assert(!strings.Contains(p+"/", "/../"), "os-path-has-no-dot-dot-component")
}

//go:build verif

package filesystem

import (
	"time"

	"github.com/cossacklabs/acra/keystore/v2/keystore/api"
	"github.com/cossacklabs/acra/keystore/v2/keystore/crypto"
	"github.com/cossacklabs/acra/keystore/v2/keystore/filesystem/backend"
	backendAPI "github.com/cossacklabs/acra/keystore/v2/keystore/filesystem/backend/api"
	"github.com/cossacklabs/acra/zz_verif/verif"
)

func verifDup(b []byte) []byte { return append([]byte{}, b...) }

var verifT0 = time.Date(2024, 1, 1, 0, 0, 0, 0, time.UTC)
var verifT1 = time.Date(2030, 1, 1, 0, 0, 0, 0, time.UTC)

func verifSuite(tag string) *crypto.KeyStoreSuite {
	enc := verif.Bytes("master-enc"+tag, 32)
	sig := verif.Bytes("master-sig"+tag, 32)
	s, err := crypto.NewSCellSuite(verifDup(enc), verifDup(sig))
	if err != nil {
		panic("suite")
	}
	return s
}

func verifSymKey(key []byte) api.KeyDescription {
	return api.KeyDescription{ValidSince: verifT0, ValidUntil: verifT1,
		Data: []api.KeyData{{Format: api.ThemisSymmetricKeyFormat, SymmetricKey: verifDup(key)}}}
}

func verifOpen(b backendAPI.Backend, suite *crypto.KeyStoreSuite) api.MutableKeyStore {
	ks, err := CustomKeyStore(b, suite)
	if err != nil {
		panic("keystore")
	}
	return ks
}

// VerifC06_V2AddReadBack: a key added to a ring reads back with the same bytes through the same handle and
// through a fresh handle on the same back end; sequence numbers grow; the current key is the one set current.
func VerifC06_V2AddReadBack() {
	suite := verifSuite("")
	be := backend.NewInMemory()
	ks := verifOpen(be, suite)
	ring, err := ks.OpenKeyRingRW("client/a/storage-sym")
	verif.Assert(err == nil, "open-rw")
	if err != nil {
		return
	}
	k1 := verif.Bytes("k1", 32)
	k2 := verif.Bytes("k2", 32)
	s1, err := ring.AddKey(verifSymKey(k1))
	verif.Assert(err == nil, "add1")
	if err != nil {
		return
	}
	verif.Assert(ring.SetCurrent(s1) == nil, "set-current1")
	s2, err := ring.AddKey(verifSymKey(k2))
	verif.Assert(err == nil, "add2")
	if err != nil {
		return
	}
	verif.Assert(s2 > s1, "seqnum-increases")
	verif.Assert(ring.SetCurrent(s2) == nil, "set-current2")
	// fresh handle
	ks2 := verifOpen(be, suite)
	r2, err := ks2.OpenKeyRing("client/a/storage-sym")
	verif.Assert(err == nil, "reopen")
	if err != nil {
		return
	}
	cur, err := r2.CurrentKey()
	verif.Reach("reopened")
	verif.Assert(err == nil, "current-readable")
	verif.Assert(cur == s2, "current-is-newest")
	got2, err := r2.SymmetricKey(s2, api.ThemisSymmetricKeyFormat)
	verif.Assert(err == nil, "read-k2")
	if err == nil {
		verif.Assert(verif.Eq(got2, k2), "k2-same-bytes")
	}
	got1, err := r2.SymmetricKey(s1, api.ThemisSymmetricKeyFormat)
	verif.Assert(err == nil, "read-k1")
	if err == nil {
		verif.Assert(verif.Eq(got1, k1), "k1-same-bytes")
	}
	all, err := r2.AllKeys()
	verif.Assert(err == nil, "all-keys")
	verif.Assert(len(all) == 2, "two-keys")
}

//go:build verif

package filesystem

import (
	"time"

	"github.com/cossacklabs/acra/keystore/v2/keystore/api"
	"github.com/cossacklabs/acra/keystore/v2/keystore/crypto"
	"github.com/cossacklabs/acra/keystore/v2/keystore/filesystem/backend"
	backendAPI "github.com/cossacklabs/acra/keystore/v2/keystore/filesystem/backend/api"
	"github.com/cossacklabs/acra/zz_verif/verif"
)

func verifDup(b []byte) []byte { return append([]byte{}, b...) }

var verifT0 = time.Date(2024, 1, 1, 0, 0, 0, 0, time.UTC)
var verifT1 = time.Date(2030, 1, 1, 0, 0, 0, 0, time.UTC)

func verifSuite(tag string) *crypto.KeyStoreSuite {
	enc := verif.Bytes("master-enc"+tag, 32)
	sig := verif.Bytes("master-sig"+tag, 32)
	s, err := crypto.NewSCellSuite(verifDup(enc), verifDup(sig))
	if err != nil {
		panic("suite")
	}
	return s
}

func verifSymKey(key []byte) api.KeyDescription {
	return api.KeyDescription{ValidSince: verifT0, ValidUntil: verifT1,
		Data: []api.KeyData{{Format: api.ThemisSymmetricKeyFormat, SymmetricKey: verifDup(key)}}}
}

func verifOpen(b backendAPI.Backend, suite *crypto.KeyStoreSuite) api.MutableKeyStore {
	ks, err := CustomKeyStore(b, suite)
	if err != nil {
		panic("keystore")
	}
	return ks
}

// VerifC06_V2AddReadBack: a key added to a ring reads back with the same bytes through the same handle and
// through a fresh handle on the same back end; sequence numbers grow; the current key is the one set current.
func VerifC06_V2AddReadBack() {
	suite := verifSuite("")
	be := backend.NewInMemory()
	ks := verifOpen(be, suite)
	ring, err := ks.OpenKeyRingRW("client/a/storage-sym")
	verif.Assert(err == nil, "open-rw")
	if err != nil {
		return
	}
	k1 := verif.Bytes("k1", 32)
	k2 := verif.Bytes("k2", 32)
	s1, err := ring.AddKey(verifSymKey(k1))
	verif.Assert(err == nil, "add1")
	if err != nil {
		return
	}
	verif.Assert(ring.SetCurrent(s1) == nil, "set-current1")
	s2, err := ring.AddKey(verifSymKey(k2))
	verif.Assert(err == nil, "add2")
	if err != nil {
		return
	}
	verif.Assert(s2 > s1, "seqnum-increases")
	verif.Assert(ring.SetCurrent(s2) == nil, "set-current2")
	// fresh handle
	ks2 := verifOpen(be, suite)
	r2, err := ks2.OpenKeyRing("client/a/storage-sym")
	verif.Assert(err == nil, "reopen")
	if err != nil {
		return
	}
	cur, err := r2.CurrentKey()
	verif.Reach("reopened")
	verif.Assert(err == nil, "current-readable")
	verif.Assert(cur == s2, "current-is-newest")
	got2, err := r2.SymmetricKey(s2, api.ThemisSymmetricKeyFormat)
	verif.Assert(err == nil, "read-k2")
	if err == nil {
		verif.Assert(verif.Eq(got2, k2), "k2-same-bytes")
	}
	got1, err := r2.SymmetricKey(s1, api.ThemisSymmetricKeyFormat)
	verif.Assert(err == nil, "read-k1")
	if err == nil {
		verif.Assert(verif.Eq(got1, k1), "k1-same-bytes")
	}
	all, err := r2.AllKeys()
	verif.Assert(err == nil, "all-keys")
	verif.Assert(len(all) == 2, "two-keys")
}

// ---- a back-end decorator: records every stored blob as a sink and can inject one fault ----

type verifBackend struct {
	backendAPI.Backend
	calls     int
	faultAt   int // call ordinal (over Put/Rename/RenameNX/Get) at which the fault strikes, -1 = never
	faultMode int // 0 = call fails with an error, 1 = crash before the call, 2 = crash after the call
	crashed   bool
}

type verifCrash struct{}

var verifErrIO = backendAPI.ErrInvalidPath // any error value serves as "I/O error"

func (b *verifBackend) step() (fail bool, crashAfter bool) {
	n := b.calls
	b.calls++
	if n != b.faultAt {
		return false, false
	}
	switch b.faultMode {
	case 0:
		return true, false
	case 1:
		b.crashed = true
		panic(verifCrash{})
	}
	return false, true
}

func (b *verifBackend) Put(path string, data []byte) error {
	verif.Sink("put", data)
	fail, after := b.step()
	if fail {
		return verifErrIO
	}
	err := b.Backend.Put(path, data)
	if after {
		b.crashed = true
		panic(verifCrash{})
	}
	return err
}

func (b *verifBackend) Rename(o, n string) error {
	fail, after := b.step()
	if fail {
		return verifErrIO
	}
	err := b.Backend.Rename(o, n)
	if after {
		b.crashed = true
		panic(verifCrash{})
	}
	return err
}

func (b *verifBackend) RenameNX(o, n string) error {
	fail, after := b.step()
	if fail {
		return verifErrIO
	}
	err := b.Backend.RenameNX(o, n)
	if after {
		b.crashed = true
		panic(verifCrash{})
	}
	return err
}

func (b *verifBackend) Close() error { return nil } // the underlying store outlives every handle

func verifWrap(be backendAPI.Backend) *verifBackend { return &verifBackend{Backend: be, faultAt: -1} }

func verifPairKey(priv, pub []byte) api.KeyDescription {
	return api.KeyDescription{ValidSince: verifT0, ValidUntil: verifT1,
		Data: []api.KeyData{{Format: api.ThemisKeyPairFormat, PublicKey: verifDup(pub), PrivateKey: verifDup(priv)}}}
}

// VerifC07_V2NoKeyInClear: nothing handed to the back end, and no export bundle, depends on the private or
// symmetric key bytes other than through encryption (non-interference over the secret bytes).
func VerifC07_V2NoKeyInClear() {
	suite := verifSuite("")
	be := verifWrap(backend.NewInMemory())
	ks := verifOpen(be, suite)
	sk := verif.Bytes("symkey", 32)
	priv := verif.Bytes("privkey", 45)
	pub := verif.Bytes("pubkey", 45)
	verif.Secret(sk)
	verif.Secret(priv)
	r1, err := ks.OpenKeyRingRW("client/a/storage-sym")
	if err != nil {
		return
	}
	s1, err := r1.AddKey(verifSymKey(sk))
	verif.Assert(err == nil, "add-sym")
	r1.SetCurrent(s1)
	r2, err := ks.OpenKeyRingRW("client/a/storage")
	if err != nil {
		return
	}
	s2, err := r2.AddKey(verifPairKey(priv, pub))
	verif.Assert(err == nil, "add-pair")
	r2.SetCurrent(s2)
	if verif.Choose("export", 0, 1) == 1 {
		exSuite := verifSuite("-export")
		bundle, err := ks.(*KeyStore).ExportKeyRings([]string{"client/a/storage-sym", "client/a/storage"}, exSuite, 2) // ExportPrivateKeys
		verif.Assert(err == nil, "export")
		if err == nil {
			verif.Sink("export", bundle)
		}
	}
	verif.Reach("written")
	verif.NoLeak("no-key-material-in-clear")
}

// VerifC07_V2RingBoundToPath: a key ring blob copied to another ring path (other owner, or other purpose of the
// same owner; short and 128+ character identities) does not load there, or at least its key cannot be read.
func VerifC07_V2RingBoundToPath() {
	suite := verifSuite("")
	be := backend.NewInMemory()
	ks := verifOpen(be, suite)
	long := ""
	if verif.Choose("long-id", 0, 1) == 1 {
		for i := 0; i < 128; i++ {
			long += "f"
		}
	}
	var src, dst string
	switch verif.Choose("case", 0, 2) {
	case 0: // other owner
		src, dst = "client/"+long+"a/storage-sym", "client/"+long+"b/storage-sym"
	case 1: // same owner, other purpose
		src, dst = "client/"+long+"a/hmac-sym", "client/"+long+"a/storage-sym"
	case 2: // another level of the tree
		src, dst = "client/"+long+"a/storage-sym", "poison-record/"+long+"a/storage-sym"
	}
	key := verif.Bytes("key", 32)
	ring, err := ks.OpenKeyRingRW(src)
	if err != nil {
		return
	}
	seq, err := ring.AddKey(verifSymKey(key))
	if err != nil {
		return
	}
	ring.SetCurrent(seq)
	blob, err := be.Get(src + keyringSuffix)
	verif.Assert(err == nil, "source-blob-exists")
	if err != nil {
		return
	}
	verif.Assert(be.Put(dst+keyringSuffix, verifDup(blob)) == nil, "copy")
	ks2 := verifOpen(be, suite)
	r2, err := ks2.OpenKeyRing(dst)
	verif.Reach("opened-copy")
	if err != nil {
		return // refused: bound to its path
	}
	got, err := r2.SymmetricKey(seq, api.ThemisSymmetricKeyFormat)
	verif.Assert(err != nil, "copied-ring-does-not-yield-keys")
	_ = got
}

// VerifC07_V2TamperEvident: replacing any single byte of a stored key ring by any other value is detected when the
// ring is read (or, where DER allows an equivalent spelling, the ring read is identical).
func VerifC07_V2TamperEvident() {
	suite := verifSuite("")
	be := backend.NewInMemory()
	ks := verifOpen(be, suite)
	key := verif.Bytes("key", 32)
	ring, err := ks.OpenKeyRingRW("client/a/storage-sym")
	if err != nil {
		return
	}
	seq, err := ring.AddKey(verifSymKey(key))
	if err != nil {
		return
	}
	ring.SetCurrent(seq)
	path := "client/a/storage-sym" + keyringSuffix
	blob, _ := be.Get(path)
	pos := verif.Choose("pos", 0, len(blob)-1)
	nv := verif.U8("newbyte")
	verif.Assume(nv != blob[pos])
	mod := verifDup(blob)
	mod[pos] = nv
	be.Rename(path, path+".orig")
	be.Put(path, mod)
	ks2 := verifOpen(be, suite)
	r2, err := ks2.OpenKeyRing("client/a/storage-sym")
	verif.Reach("read-tampered")
	if err != nil {
		return
	}
	got, err := r2.SymmetricKey(seq, api.ThemisSymmetricKeyFormat)
	if err == nil {
		verif.Assert(verif.Eq(got, key), "tampered-ring-same-key-or-rejected")
	}
	cur, err := r2.CurrentKey()
	if err == nil {
		verif.Assert(cur == seq, "tampered-ring-same-current-or-rejected")
	}
}

// VerifC18_V2ExportImport: exporting rings and importing the bundle into another keystore (other master keys) makes
// exactly those keys available with identical values, order and current marker; wrong access keys or a modified
// bundle are rejected without changing the target.
func VerifC18_V2ExportImport() {
	srcSuite := verifSuite("")
	dstSuite := verifSuite("-dst")
	exSuite := verifSuite("-export")
	srcBE := backend.NewInMemory()
	src := verifOpen(srcBE, srcSuite)
	k1 := verif.Bytes("k1", 32)
	k2 := verif.Bytes("k2", 32)
	priv := verif.Bytes("priv", 45)
	pub := verif.Bytes("pub", 45)
	r1, err := src.OpenKeyRingRW("client/a/storage-sym")
	if err != nil {
		return
	}
	s1, _ := r1.AddKey(verifSymKey(k1))
	r1.SetCurrent(s1)
	s2, _ := r1.AddKey(verifSymKey(k2)) // rotated once
	r1.SetCurrent(s2)
	r2, err := src.OpenKeyRingRW("client/a/storage")
	if err != nil {
		return
	}
	p1, _ := r2.AddKey(verifPairKey(priv, pub))
	r2.SetCurrent(p1)
	bundle, err := src.(*KeyStore).ExportKeyRings([]string{"client/a/storage-sym", "client/a/storage"}, exSuite, 2)
	verif.Assert(err == nil, "export-no-error")
	if err != nil {
		return
	}
	dstBE := backend.NewInMemory()
	dst := verifOpen(dstBE, dstSuite)
	mode := verif.Choose("mode", 0, 2)
	switch mode {
	case 0:
		ids, err := dst.(*KeyStore).ImportKeyRings(verifDup(bundle), exSuite, nil)
		verif.Reach("imported")
		verif.Assert(err == nil, "import-no-error")
		if err != nil {
			return
		}
		verif.Assert(len(ids) == 2, "two-rings-imported")
		fresh := verifOpen(dstBE, dstSuite)
		ir1, err := fresh.OpenKeyRing("client/a/storage-sym")
		verif.Assert(err == nil, "imported-sym-ring-opens")
		if err != nil {
			return
		}
		cur, err := ir1.CurrentKey()
		verif.Assert(err == nil, "imported-current")
		verif.Assert(cur == s2, "imported-current-marker")
		g2, err := ir1.SymmetricKey(s2, api.ThemisSymmetricKeyFormat)
		verif.Assert(err == nil, "imported-k2-readable")
		if err == nil {
			verif.Assert(verif.Eq(g2, k2), "imported-k2-identical")
		}
		g1, err := ir1.SymmetricKey(s1, api.ThemisSymmetricKeyFormat)
		verif.Assert(err == nil, "imported-k1-readable")
		if err == nil {
			verif.Assert(verif.Eq(g1, k1), "imported-k1-identical")
		}
		all, _ := ir1.AllKeys()
		verif.Assert(len(all) == 2, "imported-history-length")
		ir2, err := fresh.OpenKeyRing("client/a/storage")
		verif.Assert(err == nil, "imported-pair-ring-opens")
		if err != nil {
			return
		}
		gp, err := ir2.PrivateKey(p1, api.ThemisKeyPairFormat)
		verif.Assert(err == nil, "imported-private-readable")
		if err == nil {
			verif.Assert(verif.Eq(gp, priv), "imported-private-identical")
		}
		gpub, err := ir2.PublicKey(p1, api.ThemisKeyPairFormat)
		if err == nil {
			verif.Assert(verif.Eq(gpub, pub), "imported-public-identical")
		}
	case 1: // wrong access keys (at least one of the two differs)
		other := verifSuite("-other")
		verif.Assume(verif.Not(verif.And(
			verif.Eq(verif.Bytes("master-enc-other", 32), verif.Bytes("master-enc-export", 32)),
			verif.Eq(verif.Bytes("master-sig-other", 32), verif.Bytes("master-sig-export", 32)))))
		_, err := dst.(*KeyStore).ImportKeyRings(verifDup(bundle), other, nil)
		verif.Reach("wrong-keys")
		verif.Assert(err != nil, "wrong-access-keys-rejected")
		paths, _ := dstBE.ListAll()
		verif.Assert(len(paths) == 0, "target-unchanged-after-rejected-import")
	case 2: // one byte of the bundle replaced
		pos := verif.Choose("pos", 0, len(bundle)-1)
		nv := verif.U8("newbyte")
		verif.Assume(nv != bundle[pos])
		mod := verifDup(bundle)
		mod[pos] = nv
		_, err := dst.(*KeyStore).ImportKeyRings(mod, exSuite, nil)
		verif.Reach("modified-bundle")
		if err != nil {
			paths, _ := dstBE.ListAll()
			verif.Assert(len(paths) == 0, "target-unchanged-after-rejected-import")
			return
		}
		// accepted only if it still carries the same keys (an equivalent spelling)
		fresh := verifOpen(dstBE, dstSuite)
		ir1, err := fresh.OpenKeyRing("client/a/storage-sym")
		if err == nil {
			g2, err := ir1.SymmetricKey(s2, api.ThemisSymmetricKeyFormat)
			if err == nil {
				verif.Assert(verif.Eq(g2, k2), "modified-bundle-same-keys-or-rejected")
			}
		}
	}
}

// ---- C08: one fault (error, crash before, crash after) at any back-end call of a write ----

func verifRun(f func() error) (err error, crashed bool) {
	defer func() {
		if r := recover(); r != nil {
			if _, ok := r.(verifCrash); ok {
				crashed = true
				return
			}
			panic(r)
		}
	}()
	return f(), false
}

// VerifC08_V2FaultDuringWrite: a ring with one key; a second key is added (or the first is destroyed) while one
// back-end call fails or the process dies right before/after it. Afterwards, through a fresh handle: the ring opens,
// the old key reads with the same bytes unless the destroy completed, the ring is entirely the old or entirely the
// new version, and the keystore accepts a further write.
func VerifC08_V2FaultDuringWrite() {
	suite := verifSuite("")
	mem := backend.NewInMemory()
	be := verifWrap(mem)
	ks := verifOpen(be, suite)
	k1 := verif.Bytes("k1", 32)
	k2 := verif.Bytes("k2", 32)
	k3 := verif.Bytes("k3", 32)
	path := "client/a/storage-sym"
	ring, err := ks.OpenKeyRingRW(path)
	if err != nil {
		return
	}
	s1, err := ring.AddKey(verifSymKey(k1))
	if err != nil {
		return
	}
	ring.SetCurrent(s1)
	op := verif.Choose("op", 0, 1)
	fa := verif.Choose("fault-at", 0, 2)
	be.faultAt = be.calls + fa
	be.faultMode = verif.Choose("fault-mode", 0, 2)
	// the scenario is part of every assertion id, so that a recorded finding stays specific to its fault point
	scen := "/" + []string{"add", "destroy"}[op] + "/call" + string(rune('0'+fa)) + "/" + []string{"error", "crash-before", "crash-after"}[be.faultMode]
	opErr, crashed := verifRun(func() error {
		if op == 0 {
			_, err := ring.AddKey(verifSymKey(k2))
			return err
		}
		return ring.DestroyKey(s1)
	})
	be.faultAt = -1
	verif.Reach("after-fault")
	if !crashed && opErr != nil {
		// same handle: a failed write leaves nothing pending and the handle keeps working
		verif.Assert(!ring.(*KeyRing).pendingUpdates(), "failed-write-leaves-no-pending-transaction"+scen)
	}
	// restart: fresh handle on the surviving storage
	ks2 := verifOpen(verifWrap(mem), suite)
	r2, err := ks2.OpenKeyRingRW(path)
	verif.Assert(err == nil, "ring-opens-after-fault"+scen)
	if err != nil {
		return
	}
	all, _ := r2.AllKeys()
	got1, err1 := r2.SymmetricKey(s1, api.ThemisSymmetricKeyFormat)
	if op == 0 {
		verif.Assert(err1 == nil, "old-key-still-readable"+scen)
		if err1 == nil {
			verif.Assert(verif.Eq(got1, k1), "old-key-same-bytes"+scen)
		}
		verif.Assert(len(all) == 1 || len(all) == 2, "old-or-new-version"+scen)
		if len(all) == 2 {
			got2, err := r2.SymmetricKey(all[0], api.ThemisSymmetricKeyFormat)
			verif.Assert(err == nil, "new-key-complete"+scen)
			if err == nil {
				verif.Assert(verif.Eq(got2, k2), "new-key-same-bytes"+scen)
			}
		}
		if !crashed && opErr == nil {
			verif.Assert(len(all) == 2, "successful-add-is-durable"+scen)
		}
	} else {
		st, _ := r2.State(s1)
		if st == api.KeyDestroyed {
			verif.Assert(err1 != nil, "destroyed-key-has-no-material"+scen)
		} else {
			verif.Assert(err1 == nil, "undestroyed-key-still-readable"+scen)
			if err1 == nil {
				verif.Assert(verif.Eq(got1, k1), "undestroyed-key-same-bytes"+scen)
			}
		}
	}
	// the keystore keeps accepting writes
	s3, err := r2.AddKey(verifSymKey(k3))
	verif.Assert(err == nil, "follow-up-write-accepted"+scen)
	if err == nil {
		got3, err := r2.SymmetricKey(s3, api.ThemisSymmetricKeyFormat)
		verif.Assert(err == nil, "follow-up-key-readable"+scen)
		if err == nil {
			verif.Assert(verif.Eq(got3, k3), "follow-up-key-same-bytes"+scen)
		}
	}
	rings, err := ks2.ListKeyRings()
	verif.Assert(err == nil, "listing-works"+scen)
	verif.Assert(len(rings) == 1, "listing-shows-the-ring-once"+scen)
}

// ---- C17: two handles on one back end, operations interleaved in every order ----

type verifRefKey struct {
	state    api.KeyState
	hasData  bool
	material []byte
}

// VerifC17_V2TwoWriters: handles A and B (each with its own, possibly stale, view) run 3 operations in an arbitrary
// order on one ring. After every step the stored ring equals the reference obtained by applying exactly the
// successful operations once, in order; a failed operation changes nothing; sequence numbers are 1..n.
func VerifC17_V2TwoWriters() {
	suite := verifSuite("")
	mem := backend.NewInMemory()
	path := "client/a/storage-sym"
	seed := verifOpen(verifWrap(mem), suite)
	r0, err := seed.OpenKeyRingRW(path)
	if err != nil {
		return
	}
	k0 := verif.Bytes("k0", 32)
	if _, err := r0.AddKey(verifSymKey(k0)); err != nil {
		return
	}
	ref := []verifRefKey{{api.KeyPreActive, true, k0}}
	refCurrent := -1
	handles := make([]api.MutableKeyRing, 2)
	for i := range handles {
		h, err := verifOpen(verifWrap(mem), suite).OpenKeyRingRW(path)
		if err != nil {
			return
		}
		handles[i] = h
	}
	steps := 3 + verif.Tier()
	for step := 0; step < steps; step++ {
		tag := string(rune('0' + step))
		h := handles[verif.Choose("handle"+tag, 0, 1)]
		op := verif.Choose("op"+tag, 0, 3)
		var opErr error
		switch op {
		case 0:
			nk := verif.Bytes("new"+tag, 32)
			var seq int
			seq, opErr = h.AddKey(verifSymKey(nk))
			if opErr == nil {
				ref = append(ref, verifRefKey{api.KeyPreActive, true, nk})
				verif.Assert(seq == len(ref), "seqnum-is-next")
			}
		case 1:
			opErr = h.SetCurrent(1)
			if opErr == nil {
				refCurrent = 1
			}
		case 2:
			opErr = h.SetState(1, api.KeyActive)
			if opErr == nil {
				ref[0].state = api.KeyActive
			}
		case 3:
			opErr = h.DestroyKey(1)
			if opErr == nil {
				ref[0].state = api.KeyDestroyed
				ref[0].hasData = false
			}
		}
		// observer with a fresh handle
		obs, err := verifOpen(verifWrap(mem), suite).OpenKeyRing(path)
		verif.Assert(err == nil, "observer-opens-ring")
		if err != nil {
			return
		}
		all, _ := obs.AllKeys()
		verif.Assert(len(all) == len(ref), "key-count-matches-successful-adds")
		for i := range ref {
			st, err := obs.State(i + 1)
			verif.Assert(err == nil, "seqnums-are-1-to-n")
			verif.Assert(st == ref[i].state, "state-matches-successful-operations")
			mat, err := obs.SymmetricKey(i+1, api.ThemisSymmetricKeyFormat)
			if ref[i].hasData {
				verif.Assert(err == nil, "material-present-unless-destroyed")
				if err == nil {
					verif.Assert(verif.Eq(mat, ref[i].material), "material-unchanged")
				}
			} else {
				verif.Assert(err != nil, "destroyed-material-gone")
			}
		}
		cur, err := obs.CurrentKey()
		if refCurrent < 0 {
			verif.Assert(err != nil, "no-current-key-yet")
		} else {
			verif.Assert(err == nil && cur == refCurrent, "current-matches-successful-operations")
		}
	}
	verif.Reach("all-steps-done")
}

// VerifC07_V2ImportNoKeyInClear: importing a bundle writes nothing that depends on private or symmetric key bytes other
// than through encryption — also for a key that was only *marked* destroyed (SetState) and still carries its data.
func VerifC07_V2ImportNoKeyInClear() {
	suite := verifSuite("")
	src := verifOpen(backend.NewInMemory(), suite)
	k1 := verif.Bytes("symkey1", 32)
	k2 := verif.Bytes("symkey2", 32)
	verif.Secret(k1)
	verif.Secret(k2)
	r, err := src.OpenKeyRingRW("client/a/storage-sym")
	if err != nil {
		return
	}
	s1, err := r.AddKey(verifSymKey(k1))
	verif.Assert(err == nil, "add-1")
	s2, err := r.AddKey(verifSymKey(k2))
	verif.Assert(err == nil, "add-2")
	if err != nil {
		return
	}
	r.SetCurrent(s2)
	if verif.Choose("mark-first-destroyed", 0, 1) == 1 {
		if r.SetState(s1, api.KeyDestroyed) != nil {
			return
		}
	}
	exSuite := verifSuite("-export")
	bundle, err := src.(*KeyStore).ExportKeyRings([]string{"client/a/storage-sym"}, exSuite, 2) // ExportPrivateKeys
	verif.Assert(err == nil, "export")
	if err != nil {
		return
	}
	dstBackend := verifWrap(backend.NewInMemory())
	dst := verifOpen(dstBackend, verifSuite("-target"))
	_, err = dst.(*KeyStore).ImportKeyRings(bundle, exSuite, nil)
	verif.Reach("imported")
	verif.Assert(err == nil, "import")
	verif.NoLeak("no-key-material-in-clear-after-import")
}

// ---- interleavings at lock granularity: another handle may run exactly when this one holds no lock ----

type verifSchedBackend struct {
	backendAPI.Backend
	releases int    // lock releases seen so far
	runAt    int    // after which release the other party runs (-1 = never)
	other    func() // the other party's whole operation
	ran      bool
}

func (b *verifSchedBackend) released() {
	n := b.releases
	b.releases++
	if n == b.runAt && !b.ran {
		b.ran = true
		b.other()
	}
}

func (b *verifSchedBackend) Unlock() error {
	err := b.Backend.Unlock()
	b.released()
	return err
}

func (b *verifSchedBackend) RUnlock() error {
	err := b.Backend.RUnlock()
	b.released()
	return err
}

func (b *verifSchedBackend) Close() error { return nil }

// VerifC17_V2OpenNewRingInterleaved: two handles on one back end open the same not-yet-existing key ring for writing.
// Handle A's whole operation (open, add a key, make it current) is placed before B's, after it, or at any point at
// which B holds no lock. Whatever the placement, nothing A did successfully is lost: a fresh handle sees A's key with
// its bytes, and B's key if B reported success.
func VerifC17_V2OpenNewRingInterleaved() {
	suite := verifSuite("")
	mem := backend.NewInMemory()
	ka := verif.Bytes("keyA", 32)
	kb := verif.Bytes("keyB", 32)
	verif.Assume(!verif.Eq(ka, kb))
	var seqA int
	var errA error
	opA := func() {
		a := verifOpen(&verifSchedBackend{Backend: mem, runAt: -1}, suite)
		r, err := a.OpenKeyRingRW("client/x/storage-sym")
		if err != nil {
			errA = err
			return
		}
		seqA, errA = r.AddKey(verifSymKey(ka))
		if errA == nil {
			errA = r.SetCurrent(seqA)
		}
	}
	at := verif.Choose("A-runs-after-release", -1, 5) // -1: before B starts; 0..4: after B's k-th lock release; 5: after B
	if at == -1 {
		opA()
	}
	sb := &verifSchedBackend{Backend: mem, runAt: at, other: opA}
	b := verifOpen(sb, suite)
	var seqB int
	rb, errB := b.OpenKeyRingRW("client/x/storage-sym")
	if errB == nil {
		seqB, errB = rb.AddKey(verifSymKey(kb))
	}
	if !sb.ran && at != -1 {
		opA() // B released fewer locks than "at": A simply runs after B
	}
	verif.Reach("both-done")
	verif.Assert(errA == nil, "A-succeeds")
	fresh := verifOpen(&verifSchedBackend{Backend: mem, runAt: -1}, suite)
	r, err := fresh.OpenKeyRing("client/x/storage-sym")
	verif.Assert(err == nil, "ring-opens")
	if err != nil || errA != nil {
		return
	}
	got, err := r.SymmetricKey(seqA, api.ThemisSymmetricKeyFormat)
	verif.Assert(err == nil && verif.Eq(got, ka), "key-added-by-A-present")
	if errB == nil {
		gotB, err := r.SymmetricKey(seqB, api.ThemisSymmetricKeyFormat)
		verif.Assert(err == nil && verif.Eq(gotB, kb), "key-added-by-B-present")
		verif.Assert(seqA != seqB, "distinct-sequence-numbers")
	}
}

//go:build verif

package keystore

import (
	keystoreV1 "github.com/cossacklabs/acra/keystore"
	"github.com/cossacklabs/acra/keystore/v2/keystore/crypto"
	"github.com/cossacklabs/acra/keystore/v2/keystore/filesystem"
	"github.com/cossacklabs/acra/keystore/v2/keystore/filesystem/backend"
	backendAPI "github.com/cossacklabs/acra/keystore/v2/keystore/filesystem/backend/api"
	"github.com/cossacklabs/acra/zz_verif/verif"
)

func verifDup(b []byte) []byte { return append([]byte{}, b...) }

func verifSuite() *crypto.KeyStoreSuite {
	s, err := crypto.NewSCellSuite(verif.Bytes("master-enc", 32), verif.Bytes("master-sig", 32))
	if err != nil {
		panic("suite")
	}
	return s
}

func verifServer(be backendAPI.Backend, suite *crypto.KeyStoreSuite) *ServerKeyStore {
	ks, err := filesystem.CustomKeyStore(be, suite)
	if err != nil {
		panic("keystore")
	}
	return NewServerKeyStore(ks)
}

func verifContains(list [][]byte, k []byte) bool {
	r := false
	for _, x := range list {
		r = verif.Or(r, verif.Eq(x, k))
	}
	return r
}

// VerifC06_V2SymmetricRotateDestroy: client storage symmetric keys (the same ring code serves every key kind).
// After r generations the current key is the newest, all keys are offered newest-first; destroying a rotated key
// by the index shown in the listing removes exactly that key, an index that is not listed is refused, and the
// keystore (reopened through a fresh handle) keeps offering every surviving key.
func VerifC06_V2SymmetricRotateDestroy() {
	suite := verifSuite()
	be := backend.NewInMemory()
	s := verifServer(be, suite)
	id := []byte("a")
	r := 4 + verif.Tier() // at least 3 rotated keys, so that a destroyed key can sit between two live ones
	var gen [][]byte      // gen[i] = key made by generation i (oldest first)
	for i := 0; i < r; i++ {
		verif.Assert(s.GenerateClientIDSymmetricKey(id) == nil, "generate")
		k, err := s.GetClientIDSymmetricKey(id)
		verif.Assert(err == nil, "current-readable")
		if err != nil {
			return
		}
		for _, o := range gen {
			verif.Assume(!verif.Eq(o, k)) // fresh random keys are distinct
		}
		gen = append(gen, verifDup(k))
	}
	all, err := s.GetClientIDSymmetricKeys(id)
	verif.Assert(err == nil, "all-readable")
	if err != nil {
		return
	}
	verif.Assert(len(all) == r, "all-count")
	for i := 0; i < r && i < len(all); i++ {
		verif.Assert(verif.Eq(all[i], gen[r-1-i]), "all-newest-first")
	}
	path := s.clientStorageSymmetricKeyPath(id)
	alive := make([]bool, r) // over gen
	for i := range alive {
		alive[i] = true
	}
	steps := 1 + verif.Tier()
	if verif.Choose("two-steps", 0, 1) == 1 {
		steps = 2
	}
	for step := 0; step < steps; step++ {
		listing, err := s.listRotatedRings(path, keystoreV1.PurposeStorageClientSymmetricKey, "a")
		verif.Assert(err == nil, "listing")
		if err != nil {
			return
		}
		// expected listing: alive rotated keys (all but the newest), oldest first, numbered from 2
		var rotated []int
		for i := 0; i < r-1; i++ {
			if alive[i] {
				rotated = append(rotated, i)
			}
		}
		verif.Assert(len(listing) == len(rotated), "listing-count")
		for j := range listing {
			verif.Assert(listing[j].Index == j+2, "listing-index")
		}
		idx := verif.Choose("index"+string(rune('0'+step)), -1, r+2)
		err = s.DestroyRotatedClientIDSymmetricKey(id, idx)
		verif.Reach("destroy-returned")
		listed := idx >= 2 && idx-2 < len(rotated)
		if listed {
			verif.Assert(err == nil, "listed-index-destroyed")
			if err == nil {
				alive[rotated[idx-2]] = false
			}
		} else {
			verif.Assert(err != nil, "unlisted-index-refused")
		}
		// fresh handle on the same storage
		s2 := verifServer(be, suite)
		cur, err := s2.GetClientIDSymmetricKey(id)
		verif.Assert(err == nil, "current-still-readable")
		if err == nil {
			verif.Assert(verif.Eq(cur, gen[r-1]), "current-unchanged")
		}
		for i := 0; i < r; i++ {
			ring, err := s2.OpenKeyRing(path)
			if err != nil {
				verif.Assert(false, "ring-opens")
				return
			}
			k, err := ring.SymmetricKey(i+1, 3)
			if alive[i] {
				verif.Assert(err == nil, "survivor-readable")
				if err == nil {
					verif.Assert(verif.Eq(k, gen[i]), "survivor-same-bytes")
				}
			} else {
				verif.Assert(err != nil, "destroyed-key-gone")
			}
		}
	}
}

// VerifC06_V2AllKeysAfterDestroy: after a rotated key was destroyed the "all keys" reader used for decryption still
// offers every surviving key, newest first.
func VerifC06_V2AllKeysAfterDestroy() {
	suite := verifSuite()
	be := backend.NewInMemory()
	s := verifServer(be, suite)
	id := []byte("a")
	var gen [][]byte
	for i := 0; i < 3; i++ {
		if s.GenerateClientIDSymmetricKey(id) != nil {
			return
		}
		k, err := s.GetClientIDSymmetricKey(id)
		if err != nil {
			return
		}
		gen = append(gen, verifDup(k))
	}
	if s.DestroyRotatedClientIDSymmetricKey(id, 2) != nil {
		return
	}
	all, err := s.GetClientIDSymmetricKeys(id)
	verif.Reach("all-after-destroy")
	verif.Assert(err == nil, "all-keys-readable-after-destroy")
	if err == nil {
		verif.Assert(len(all) == 2, "two-survivors")
		verif.Assert(verifContains(all, gen[2]), "newest-offered")
		verif.Assert(verifContains(all, gen[1]), "surviving-rotated-offered")
	}
}

// VerifC02_V2KeysNotSharedAcrossClients: the keys generated for client a and client b differ and stay with their
// owner: after a's key ring file is copied over b's (storage symmetric or HMAC ring), a fresh handle does not hand
// a's key out as b's.
func VerifC02_V2KeysNotSharedAcrossClients() {
	suite := verifSuite()
	be := backend.NewInMemory()
	s := verifServer(be, suite)
	a, b := []byte("a"), []byte("b")
	hmacRing := verif.Choose("ring", 0, 1) == 1
	var ka, kb []byte
	var err error
	if hmacRing {
		verif.Assert(s.GenerateHmacKey(a) == nil && s.GenerateHmacKey(b) == nil, "generate")
		ka, err = s.GetHMACSecretKey(a)
		verif.Assert(err == nil, "read-a")
		kb, err = s.GetHMACSecretKey(b)
		verif.Assert(err == nil, "read-b")
	} else {
		verif.Assert(s.GenerateClientIDSymmetricKey(a) == nil && s.GenerateClientIDSymmetricKey(b) == nil, "generate")
		ka, err = s.GetClientIDSymmetricKey(a)
		verif.Assert(err == nil, "read-a")
		kb, err = s.GetClientIDSymmetricKey(b)
		verif.Assert(err == nil, "read-b")
	}
	if ka == nil || kb == nil {
		return
	}
	verif.Assume(!verif.Eq(ka, kb)) // two fresh random keys
	name := "storage-sym"
	if hmacRing {
		name = "hmac-sym"
	}
	blob, err := be.Get("client/a/" + name + ".keyring")
	verif.Assert(err == nil, "ring-file-of-a-exists")
	if err != nil {
		return
	}
	// copy over b's ring file: write next to it, then rename over it (Put refuses to overwrite)
	verif.Assert(be.Put("client/b/"+name+".keyring.copy", verifDup(blob)) == nil, "copy")
	verif.Assert(be.Rename("client/b/"+name+".keyring.copy", "client/b/"+name+".keyring") == nil, "move-over")
	s2 := verifServer(be, suite)
	verif.Reach("copied")
	var got []byte
	if hmacRing {
		got, err = s2.GetHMACSecretKey(b)
	} else {
		got, err = s2.GetClientIDSymmetricKey(b)
	}
	if err == nil {
		verif.Assert(!verif.Eq(got, ka), "key-of-a-not-served-as-key-of-b")
	}
	if !hmacRing {
		all, err := s2.GetClientIDSymmetricKeys(b)
		if err == nil {
			verif.Assert(!verifContains(all, ka), "key-of-a-not-among-keys-of-b")
		}
	}
}

// VerifC18_V2BackupModes: KeyBackuper.Export / Import (what acra-keys export|import and acra-backup call) between two
// key stores with different master keys. Mode "all" and mode "private" with an explicit selection make the exported
// keys available in the target with identical values and order; mode "public only" must not carry private material.
func VerifC18_V2BackupModes() {
	suite := verifSuite()
	be := backend.NewInMemory()
	s := verifServer(be, suite)
	id := []byte("a")
	verif.Assert(s.GenerateClientIDSymmetricKey(id) == nil, "generate-1")
	verif.Assert(s.GenerateClientIDSymmetricKey(id) == nil, "generate-2")
	verif.Assert(s.GenerateHmacKey(id) == nil, "generate-hmac")
	want, err := s.GetClientIDSymmetricKeys(id)
	verif.Assert(err == nil && len(want) == 2, "source-keys")
	wantHmac, err := s.GetHMACSecretKey(id)
	verif.Assert(err == nil, "source-hmac")
	if err != nil || len(want) != 2 {
		return
	}
	bk, _ := NewKeyBackuper("", "", s) // acra-keys passes the ServerKeyStore
	var backup *keystoreV1.KeysBackup
	all := verif.Choose("mode", 0, 1) == 0
	if all {
		backup, err = bk.Export(nil, keystoreV1.ExportAllKeys)
	} else {
		backup, err = bk.Export([]keystoreV1.ExportID{{KeyKind: keystoreV1.KeySymmetric, ContextID: id}, {KeyKind: keystoreV1.KeySearch, ContextID: id}}, keystoreV1.ExportPrivateKeys)
	}
	verif.Reach("exported")
	verif.Assert(err == nil, "export-no-error")
	if err != nil {
		return
	}
	suite2, err := crypto.NewSCellSuite(verif.Bytes("master2-enc", 32), verif.Bytes("master2-sig", 32))
	if err != nil {
		return
	}
	be2 := backend.NewInMemory()
	t := verifServer(be2, suite2)
	bk2, _ := NewKeyBackuper("", "", t)
	_, err = bk2.Import(backup)
	verif.Assert(err == nil, "import-no-error")
	if err != nil {
		return
	}
	t = verifServer(be2, suite2) // fresh handle
	got, err := t.GetClientIDSymmetricKeys(id)
	verif.Reach("imported")
	verif.Assert(err == nil, "target-has-the-symmetric-keys")
	if err == nil {
		verif.Assert(len(got) == 2 && verif.Eq(got[0], want[0]) && verif.Eq(got[1], want[1]), "target-symmetric-keys-identical-and-ordered")
	}
	gotHmac, err := t.GetHMACSecretKey(id)
	verif.Assert(err == nil, "target-has-the-hmac-key")
	if err == nil {
		verif.Assert(verif.Eq(gotHmac, wantHmac), "target-hmac-key-identical")
	}
}

// VerifC18_V2BackupAfterDestroy: a key ring in which a rotated key was destroyed is a legitimate history too: exporting
// all keys and importing them elsewhere succeeds, offers exactly the surviving keys in the same order, and a failed
// import leaves no half-made ring behind.
func VerifC18_V2BackupAfterDestroy() {
	suite := verifSuite()
	be := backend.NewInMemory()
	s := verifServer(be, suite)
	id := []byte("a")
	for i := 0; i < 3; i++ {
		verif.Assert(s.GenerateClientIDSymmetricKey(id) == nil, "generate")
	}
	verif.Assert(s.DestroyRotatedClientIDSymmetricKey(id, 2) == nil, "destroy-oldest")
	want, err := s.GetClientIDSymmetricKeys(id)
	verif.Assert(err == nil && len(want) == 2, "source-keys")
	if err != nil || len(want) != 2 {
		return
	}
	bk, _ := NewKeyBackuper("", "", s)
	backup, err := bk.Export(nil, keystoreV1.ExportAllKeys)
	verif.Reach("exported")
	verif.Assert(err == nil, "export-no-error")
	if err != nil {
		return
	}
	suite2, err := crypto.NewSCellSuite(verif.Bytes("master2-enc", 32), verif.Bytes("master2-sig", 32))
	if err != nil {
		return
	}
	be2 := backend.NewInMemory()
	t := verifServer(be2, suite2)
	bk2, _ := NewKeyBackuper("", "", t)
	_, err = bk2.Import(backup)
	verif.Reach("import-returned")
	t = verifServer(be2, suite2)
	got, gerr := t.GetClientIDSymmetricKeys(id)
	if err != nil {
		// a refused import must not leave anything behind
		verif.Assert(gerr != nil || len(got) == 0, "refused-import-leaves-target-unchanged")
		rings, lerr := t.ListKeyRings()
		verif.Assert(lerr == nil && len(rings) == 0, "refused-import-leaves-no-ring-behind")
		verif.Assert(false, "import-of-a-ring-with-a-destroyed-key-succeeds")
		return
	}
	verif.Assert(gerr == nil && len(got) == 2 && verif.Eq(got[0], want[0]) && verif.Eq(got[1], want[1]), "surviving-keys-identical-and-ordered")
}

// VerifC18_V2KeyPairBackupModes: a storage key pair ring with history (optionally with a destroyed rotated key)
// exported in public-only mode or with private keys and imported elsewhere: the target has the same current public
// key, and with private keys the same surviving private keys in the same order.
func VerifC18_V2KeyPairBackupModes() {
	suite := verifSuite()
	be := backend.NewInMemory()
	s := verifServer(be, suite)
	id := []byte("a")
	for i := 0; i < 3; i++ {
		verif.Assert(s.GenerateDataEncryptionKeys(id) == nil, "generate")
	}
	destroyed := verif.Choose("destroy-one", 0, 1) == 1
	if destroyed {
		verif.Assert(s.DestroyRotatedClientIDEncryptionKeyPair(id, 2) == nil, "destroy-oldest")
	}
	wantPub, err := s.GetClientIDEncryptionPublicKey(id)
	wantPriv, err2 := s.GetServerDecryptionPrivateKeys(id)
	if err != nil || err2 != nil {
		verif.Assert(false, "source-keys")
		return
	}
	publicOnly := verif.Choose("public-only", 0, 1) == 1
	bk, _ := NewKeyBackuper("", "", s)
	var backup *keystoreV1.KeysBackup
	if publicOnly {
		backup, err = bk.Export([]keystoreV1.ExportID{{KeyKind: keystoreV1.KeyStoragePublic, ContextID: id}}, keystoreV1.ExportPublicOnly)
	} else {
		backup, err = bk.Export([]keystoreV1.ExportID{{KeyKind: keystoreV1.KeyStoragePrivate, ContextID: id}}, keystoreV1.ExportPrivateKeys)
	}
	verif.Reach("exported")
	verif.Assert(err == nil, "export-no-error")
	if err != nil {
		return
	}
	suite2, err := crypto.NewSCellSuite(verif.Bytes("master2-enc", 32), verif.Bytes("master2-sig", 32))
	if err != nil {
		return
	}
	be2 := backend.NewInMemory()
	t := verifServer(be2, suite2)
	bk2, _ := NewKeyBackuper("", "", t)
	_, err = bk2.Import(backup)
	verif.Assert(err == nil, "import-no-error")
	if err != nil {
		return
	}
	t = verifServer(be2, suite2)
	gotPub, err := t.GetClientIDEncryptionPublicKey(id)
	verif.Reach("imported")
	verif.Assert(err == nil, "target-has-the-public-key")
	if err == nil {
		verif.Assert(verif.Eq(gotPub.Value, wantPub.Value), "target-public-key-identical")
	}
	if !publicOnly {
		gotPriv, err := t.GetServerDecryptionPrivateKeys(id)
		verif.Assert(err == nil && len(gotPriv) == len(wantPriv), "target-has-the-private-keys")
		if err == nil && len(gotPriv) == len(wantPriv) {
			for i := range wantPriv {
				verif.Assert(verif.Eq(gotPriv[i].Value, wantPriv[i].Value), "target-private-keys-identical-and-ordered")
			}
		}
	}
}

//go:build verif

package keystore

import (
	keystoreV1 "github.com/cossacklabs/acra/keystore"
	"github.com/cossacklabs/acra/keystore/v2/keystore/crypto"
	"github.com/cossacklabs/acra/keystore/v2/keystore/filesystem"
	"github.com/cossacklabs/acra/keystore/v2/keystore/filesystem/backend"
	backendAPI "github.com/cossacklabs/acra/keystore/v2/keystore/filesystem/backend/api"
	"github.com/cossacklabs/acra/zz_verif/verif"
)

func verifDup(b []byte) []byte { return append([]byte{}, b...) }

func verifSuite() *crypto.KeyStoreSuite {
	s, err := crypto.NewSCellSuite(verif.Bytes("master-enc", 32), verif.Bytes("master-sig", 32))
	if err != nil {
		panic("suite")
	}
	return s
}

func verifServer(be backendAPI.Backend, suite *crypto.KeyStoreSuite) *ServerKeyStore {
	ks, err := filesystem.CustomKeyStore(be, suite)
	if err != nil {
		panic("keystore")
	}
	return NewServerKeyStore(ks)
}

func verifContains(list [][]byte, k []byte) bool {
	r := false
	for _, x := range list {
		r = verif.Or(r, verif.Eq(x, k))
	}
	return r
}

// VerifC06_V2SymmetricRotateDestroy: client storage symmetric keys (the same ring code serves every key kind).
// After r generations the current key is the newest, all keys are offered newest-first; destroying a rotated key
// by the index shown in the listing removes exactly that key, an index that is not listed is refused, and the
// keystore (reopened through a fresh handle) keeps offering every surviving key.
func VerifC06_V2SymmetricRotateDestroy() {
	suite := verifSuite()
	be := backend.NewInMemory()
	s := verifServer(be, suite)
	id := []byte("a")
	r := 3 + verif.Tier()
	var gen [][]byte // gen[i] = key made by generation i (oldest first)
	for i := 0; i < r; i++ {
		verif.Assert(s.GenerateClientIDSymmetricKey(id) == nil, "generate")
		k, err := s.GetClientIDSymmetricKey(id)
		verif.Assert(err == nil, "current-readable")
		if err != nil {
			return
		}
		for _, o := range gen {
			verif.Assume(!verif.Eq(o, k)) // fresh random keys are distinct
		}
		gen = append(gen, verifDup(k))
	}
	all, err := s.GetClientIDSymmetricKeys(id)
	verif.Assert(err == nil, "all-readable")
	if err != nil {
		return
	}
	verif.Assert(len(all) == r, "all-count")
	for i := 0; i < r && i < len(all); i++ {
		verif.Assert(verif.Eq(all[i], gen[r-1-i]), "all-newest-first")
	}
	path := s.clientStorageSymmetricKeyPath(id)
	alive := make([]bool, r) // over gen
	for i := range alive {
		alive[i] = true
	}
	steps := 1 + verif.Tier()
	if verif.Choose("two-steps", 0, 1) == 1 {
		steps = 2
	}
	for step := 0; step < steps; step++ {
		listing, err := s.listRotatedRings(path, keystoreV1.PurposeStorageClientSymmetricKey, "a")
		verif.Assert(err == nil, "listing")
		if err != nil {
			return
		}
		// expected listing: alive rotated keys (all but the newest), oldest first, numbered from 2
		var rotated []int
		for i := 0; i < r-1; i++ {
			if alive[i] {
				rotated = append(rotated, i)
			}
		}
		verif.Assert(len(listing) == len(rotated), "listing-count")
		for j := range listing {
			verif.Assert(listing[j].Index == j+2, "listing-index")
		}
		idx := verif.Choose("index"+string(rune('0'+step)), -1, r+2)
		err = s.DestroyRotatedClientIDSymmetricKey(id, idx)
		verif.Reach("destroy-returned")
		listed := idx >= 2 && idx-2 < len(rotated)
		if listed {
			verif.Assert(err == nil, "listed-index-destroyed")
			if err == nil {
				alive[rotated[idx-2]] = false
			}
		} else {
			verif.Assert(err != nil, "unlisted-index-refused")
		}
		// fresh handle on the same storage
		s2 := verifServer(be, suite)
		cur, err := s2.GetClientIDSymmetricKey(id)
		verif.Assert(err == nil, "current-still-readable")
		if err == nil {
			verif.Assert(verif.Eq(cur, gen[r-1]), "current-unchanged")
		}
		for i := 0; i < r; i++ {
			ring, err := s2.OpenKeyRing(path)
			if err != nil {
				verif.Assert(false, "ring-opens")
				return
			}
			k, err := ring.SymmetricKey(i+1, 3)
			if alive[i] {
				verif.Assert(err == nil, "survivor-readable")
				if err == nil {
					verif.Assert(verif.Eq(k, gen[i]), "survivor-same-bytes")
				}
			} else {
				verif.Assert(err != nil, "destroyed-key-gone")
			}
		}
	}
}

// VerifC06_V2AllKeysAfterDestroy: after a rotated key was destroyed the "all keys" reader used for decryption still
// offers every surviving key, newest first.
func VerifC06_V2AllKeysAfterDestroy() {
	suite := verifSuite()
	be := backend.NewInMemory()
	s := verifServer(be, suite)
	id := []byte("a")
	var gen [][]byte
	for i := 0; i < 3; i++ {
		if s.GenerateClientIDSymmetricKey(id) != nil {
			return
		}
		k, err := s.GetClientIDSymmetricKey(id)
		if err != nil {
			return
		}
		gen = append(gen, verifDup(k))
	}
	if s.DestroyRotatedClientIDSymmetricKey(id, 2) != nil {
		return
	}
	all, err := s.GetClientIDSymmetricKeys(id)
	verif.Reach("all-after-destroy")
	verif.Assert(err == nil, "all-keys-readable-after-destroy")
	if err == nil {
		verif.Assert(len(all) == 2, "two-survivors")
		verif.Assert(verifContains(all, gen[2]), "newest-offered")
		verif.Assert(verifContains(all, gen[1]), "surviving-rotated-offered")
	}
}

#!/bin/bash
# runs every registered check at one tier on the current tree; one summary line per property
T=${1:-quick}
cd /verif
for p in C01 C02 C03 C04 C05 C06 C07 C08 C09 C10 C11 C12 C13 C14 C15 C16 C17 C18 C19 C20; do
  out=$(./check $p --tier $T 2>&1); rc=$?
  echo "$p rc=$rc $(echo "$out" | grep '^property=' | tail -1)"
  echo "$out" | grep -E "^(VIOLATION|BROKEN|SPURIOUS|INCONCLUSIVE|TRANSLATOR)" | cut -c1-220 | head -5
done

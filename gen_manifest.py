#!/usr/bin/env python3
"""Regenerates MANIFEST.json from checks.json (claimed properties) and na.json (not applicable)."""
import json, os
V = os.path.dirname(os.path.abspath(__file__))
checks = json.load(open(V + "/checks.json"))
na = json.load(open(V + "/na.json")) if os.path.exists(V + "/na.json") else {}
props = [json.loads(l)["id"] for l in open(V + "/properties.jsonl")]
m = {
 "version": 1,
 "setup_cmd": "cd /verif && ./check setup",
 "hooks": {"guard": "verif", "enable": "harnesses are injected with go/packages Overlay and `go test -overlay -tags verif`; nothing is written into /repo",
           "baseline_off_cmd": "cd /repo && go test -mod=mod -json -vet=off -count=1 -timeout 25m ./...",
           "source_commits": [], "add_only": True},
 "engines": [{"name": "gosmt", "path": "/verif/engine", "serves_properties": sorted(checks.keys()),
              "kind_free_text": "bounded symbolic executor for Go: fork of x/tools go/ssa/interp with bit-vector terms, re-execution DFS over solver-decided branches, z3 -in; counterexamples replayed natively with go test -overlay"}],
 "checks": [],
 "not_applicable": [],
 "notes": "See DESIGN.md. Every claimed check is solver-based bounded symbolic execution of acra's real code (go/ssa); bounds are in each evidence file.",
}
for pid in props:
    if pid in checks:
        c = checks[pid]
        m["checks"].append({
            "property_id": pid,
            "quick_cmd": "./check %s --tier quick" % pid,
            "thorough_cmd": "./check %s --tier thorough" % pid,
            "evidence_file": "/verif/evidence/%s.json" % pid,
            "replay_cmd_template": "./check %s --replay {path}" % pid,
            "engine": "gosmt",
            "level_claimed": {"category": "model_checking",
                              "text": c.get("level_text", "bounded symbolic execution of the real code; the solver decides every branch and assertion for all inputs inside: " + c.get("bounds", {}).get("quick", "")),
                              "design_ref": c.get("design_ref", "DESIGN.md section 3, " + pid)},
            "level_note": c.get("level_note", "trusted base: the gosmt encoder (validated per run by native replay of sampled paths and of every counterexample), z3, the stubs and models of DESIGN.md section 2.5; assumptions: " + "; ".join(c.get("assumptions", []))),
            "technique": c.get("technique", "bounded symbolic execution of go/ssa + SMT (z3, bit-vectors)"),
        })
    else:
        m["not_applicable"].append({"property_id": pid, "reason": na.get(pid, "no solver-decided kernel has been run clean yet for this property (work in progress); not checked by any other technique")})
json.dump(m, open(V + "/MANIFEST.json", "w"), indent=1)
print("claimed:", [c["property_id"] for c in m["checks"]], "na:", len(m["not_applicable"]))
